/-
  C20 (second half, continued) — further producers of lint-clean circuits: ternary, remove_unloaded, unroll,
  strip_blackboxes, insert_registers, the sensitivity transforms, fully tied miters, sequential_unroll, the composition
  calls add_subcircuit / fill_blackbox, the bench reader and both Verilog readers.  Kept in a file of its
  own because the helper lemmas (CG/Proofs/LintProd*.lean) are stated with `C20.RegistryOK` / `C20.lint_accepts` and
  therefore import CG/Props/C20.lean.  Property theorems only.
-/
import CG.Props.C20
import CG.Props.C04
import CG.Props.C06
import CG.Props.C09
import CG.Props.C10
import CG.Props.C11
import CG.Props.C15
import CG.Props.C16
import CG.Proofs.LintProdA6
import CG.Proofs.LintProdBUnrollB
import CG.Proofs.LintProdD5
import CG.Proofs.LintProdD6
import CG.Proofs.LintProdDCex
import CG.Proofs.LintProdCSensz
import CG.Proofs.LintProdCSenC
import CG.Props.C14
import CG.Props.C02
import CG.Proofs.LintProdE2
import CG.Proofs.LintProdE4
import CG.Proofs.LintProdECex
import CG.Proofs.LintProdF3
import CG.Proofs.LintProdF6
import CG.Proofs.LintProdG3
namespace CG.C20

/-- blackbox-free circuits without dotted names have a consistent registry (restated for convenience) -/
theorem registryOK_nobb_iff (c : Circuit) (hb : c.bbs = []) : RegistryOK c ↔ LintLink.NoDots c :=
  LintProdA.registryOK_nobb_iff c hb

/-- **C20 (second half, ternary).** the ternary encoding of a good circuit passes lint -/
theorem ternary_passes_lint (c : Circuit) (ord ord' : Ord) (hord : OrdOK ord) (hord' : OrdOK ord') (hc : C10.Good c)
    (hr : RegistryOK c) (t : Circuit) (mapping : List (Name × Name)) (h : Tx.ternary c ord = .ok (t, mapping)) :
    lint t {} ord' = Outcome.ok := by
  obtain ⟨hcl, hreg⟩ := LintProdA.ternary_clean c ord hord hc.toC hc.nobb hr t mapping h
  exact lint_accepts t ord' hord' hcl hreg

/-- **C20 (second half, remove_unloaded).** deleting the dead logic of a lint-clean acyclic circuit leaves a lint-clean
    circuit (with `inputs=True` for blackbox-free circuits, as the property states) -/
theorem remove_unloaded_passes_lint (c c' : Circuit) (inputs : Bool) (ord ord' : Ord) (hord : OrdOK ord) (hord' : OrdOK ord')
    (hc : LintClean c) (hr : RegistryOK c) (hacyc : Acyclic c) (hin : inputs = false ∨ c.bbs = [])
    (removed : List Name) (h : c.removeUnloaded inputs ord = some (c', removed)) :
    lint c' {} ord' = Outcome.ok := by
  obtain ⟨hcl, hreg⟩ := LintProdA.remove_unloaded_clean c c' inputs ord hord hc hr hacyc hin removed h
  exact lint_accepts c' ord' hord' hcl hreg

/-- **C20 (second half, unroll).** the unrolled circuit (per-step copies, state inputs of later steps driven by the state
    outputs of the step before, step-0 state inputs and the other per-step inputs primary inputs) passes lint -/
theorem unroll_passes_lint (c uc : Circuit) (n : Nat) (stateIO : List (Name × Name)) (pfx : String) (ord ord' : Ord)
    (hord : OrdOK ord) (hord' : OrdOK ord') (hc : C09.Good c) (hp : C09.Pairing c stateIO) (hr : RegistryOK c)
    (hpfx : hasDot pfx = false) (ioMap : List (Name × List Name))
    (h : Tx.unroll c n stateIO pfx ord = .ok (uc, ioMap)) :
    lint uc {} ord' = Outcome.ok := by
  obtain ⟨hcl, hnd⟩ := LintProdB.unroll_clean hord hc.clean (LintProdB.noDots_of_registered hc.nobb hr.1)
    hp.valsIn hp.valsNodup hpfx h
  exact lint_accepts uc ord' hord' hcl (registryOK_of_noDots hnd)

/-- **C20 (second half, strip_blackboxes).** the plain statement "the stripped version of a lint-clean circuit with a consistent
    registry passes lint" is refuted: `LintProdDCex.cexDot` (a dotted primary input `u.x` named after a recorded instance:
    it keeps its dotted name while the registry is emptied) and `LintProdDCex.cexDrop` (the ignored output pin `u.q`
    drives the buffer `o`, which stays behind undriven) satisfy every hypothesis, the call succeeds, and lint rejects
    the result -/
theorem strip_blackboxes_passes_lint_false :
    ¬ (∀ (c c' : Circuit) (ignore : List Name) (ord ord' : Ord), OrdOK ord → OrdOK ord' →
      LintClean c → RegistryOK c → Tx.stripBlackboxes c ignore ord = .ok c' → lint c' {} ord' = Outcome.ok) :=
  LintProdDCex.strip_blackboxes_passes_lint_false

/-- the two missing hypotheses: every dotted node of the argument is a blackbox pin node … -/
def DotsArePins (c : Circuit) : Prop :=
  ∀ g ∈ c.nodeNames, hasDot g = true → c.ty? g = some "bb_input" ∨ c.ty? g = some "bb_output"
/-- … and an output pin deleted through `ignore_pins` drives nothing -/
def DroppedOutsUnloaded (c : Circuit) (ignore : List Name) : Prop :=
  ∀ n, c.ty? n = some "bb_output" → ignore.contains (Tx.lastDot n) = true → c.fanout n = []

/-- glue: these are the predicates of the helper files -/
theorem dotsArePins_eq : @DotsArePins = @LintProdD.DotsArePins := rfl
theorem droppedOutsUnloaded_eq : @DroppedOutsUnloaded = @LintProdD.DroppedOutsUnloaded := rfl

/-- **C20 (second half, strip_blackboxes), corrected.** the stripped version of a lint-clean circuit passes lint when
    every dotted node is a pin and the ignored output pins are unloaded (`RegistryOK c` is not needed: the result has no
    registry) … -/
theorem strip_blackboxes_passes_lint_fixed (c c' : Circuit) (ignore : List Name) (ord ord' : Ord) (hord : OrdOK ord)
    (hord' : OrdOK ord') (hc : LintClean c) (hdots : DotsArePins c) (hdrop : DroppedOutsUnloaded c ignore)
    (h : Tx.stripBlackboxes c ignore ord = .ok c') :
    lint c' {} ord' = Outcome.ok :=
  LintProdD.strip_passes_lint c c' ignore ord ord' hord hord' hc hdots hdrop h

/-- … and these two conditions are exactly what is needed: for a lint-clean argument and a successful call, the result
    passes lint if and only if they hold -/
theorem strip_blackboxes_passes_lint_iff (c c' : Circuit) (ignore : List Name) (ord ord' : Ord) (hord : OrdOK ord)
    (hord' : OrdOK ord') (hc : LintClean c) (h : Tx.stripBlackboxes c ignore ord = .ok c') :
    lint c' {} ord' = Outcome.ok ↔ DotsArePins c ∧ DroppedOutsUnloaded c ignore :=
  ⟨LintProdD.strip_conditions_of_lint c c' ignore ord ord' hord hord' hc h,
    fun hh => LintProdD.strip_passes_lint c c' ignore ord ord' hord hord' hc hh.1 hh.2 h⟩

/-- **C20 (second half, insert_registers).** the pipelined circuit (flop instances spliced into wires, one shared clock)
    passes lint: every instance is registered with all its pins -/
theorem insert_registers_passes_lint (c c' : Circuit) (k : Nat) (ord ord' : Ord) (hord : OrdOK ord) (hord' : OrdOK ord') (fuel : Nat)
    (hc : LintClean c) (hnobb : c.bbs = []) (hr : RegistryOK c) (h : Tx.insertRegisters c k ord fuel = .ok c') :
    lint c' {} ord' = Outcome.ok := by
  obtain ⟨hcl, hreg⟩ := LintProdD.insert_registers_clean c c' k ord hord fuel hc hnobb hr h
  exact lint_accepts c' ord' hord' hcl hreg

/-- **C20 (second half, sensitization_transform).** the result (a self-miter with every startpoint tied, `n` inverted in
    the second copy) passes lint -/
theorem sensitization_passes_lint (c m : Circuit) (n : Name) (ord ord' : Ord) (ordE : List (Name × Name) → List (Name × Name))
    (hord : OrdOK ord) (hord' : OrdOK ord') (hc : C11.Good c) (hr : RegistryOK c) (hn : c.has n = true)
    (hout : c.outputs ≠ []) (hin : c.inputs ≠ [])
    (h : Tx.sensitizationTransform c n [] ord ordE = .ok m) :
    lint m {} ord' = Outcome.ok := by
  obtain ⟨hcl, hnd⟩ := LintProd.sensitization_clean hord hc.clean hc.nobb hr.1 hout hin h
  exact lint_accepts m ord' hord' hcl (registryOK_of_noDots hnd)

/-- **C20 (second half, sensitivity_transform).** the result (original cone, one copy per startpoint with that startpoint
    inverted, comparators and the population count) passes lint -/
theorem sensitivity_transform_passes_lint (c sen : Circuit) (n : Name) (ord ord' : Ord) (hord : OrdOK ord) (hord' : OrdOK ord')
    (hc : C11.Good c) (hr : RegistryOK c) (hn : c.has n = true) (h : Tx.sensitivityTransform c n ord = .ok sen) :
    lint sen {} ord' = Outcome.ok := by
  obtain ⟨hcl, hnd⟩ := LintProd.sensitivity_clean hord hc.clean hc.nobb hr.1 hn h
  exact lint_accepts sen ord' hord' hcl (registryOK_of_noDots hnd)

/-- **C20 (second half, miter with every startpoint tied).** the exception the property names is only about *untied*
    startpoints: when every input of both circuits is tied, the miter passes lint -/
theorem miter_tied_passes_lint (c0 c1 m : Circuit) (sp ep : List Name) (ord ord' : Ord) (hord : OrdOK ord) (hord' : OrdOK ord')
    (h0 : C04.Good c0) (h1 : C04.Good c1) (hr0 : RegistryOK c0) (hr1 : RegistryOK c1) (hne : c1.nodes ≠ [])
    (hs : C04.Shared c0 c1 sp ep)
    (hall0 : ∀ i ∈ c0.inputs, i ∈ sp) (hall1 : ∀ i ∈ c1.inputs, i ∈ sp)
    (h : Tx.miter c0 (some c1) (some sp) (some ep) ord = .ok m) :
    lint m {} ord' = Outcome.ok := by
  obtain ⟨hcl, hnd⟩ := LintProd.miter_tied_clean h0.clean h1.clean h0.nobb h1.nobb hr0.1 hr1.1 hne hs.spNodup
    hs.epNodup hs.sp0 hs.ep0 hall0 hall1 h
  exact lint_accepts m ord' hord' hcl (registryOK_of_noDots hnd)


/-- **C20 (second half, sequential_unroll).** unrolling a lint-clean sequential circuit passes lint, provided the flops'
    other output pins (neither the data output nor ignored) and the ignored output pins are unloaded (a loaded one is known
    finding K41 / the `DroppedOutsUnloaded` condition of strip_blackboxes) and every dotted node is a pin (K47) -/
theorem sequential_unroll_passes_lint (c : Circuit) (bb : BBox) (n : Nat) (dPort qPort : Name) (ignore : List Name) (afo : Bool)
    (initStr : Option String) (ru : Bool) (pfx : String) (ord ord' : Ord) (hord : OrdOK ord) (hord' : OrdOK ord')
    (hc : C09.SeqGood c bb dPort qPort) (hig : dPort ∉ ignore ∧ qPort ∉ ignore)
    (hclash : ∀ u ∈ c.bbs, ∀ g ∈ bb.ins ++ bb.outs, g ∉ ignore → c.has (u.1 ++ "_" ++ g) = false)
    (hinit : ∀ s, initStr = some s → s = "0" ∨ s = "1")
    (hdots : DotsArePins c) (hpfx : hasDot pfx = false)
    (hextra : ∀ u ∈ c.bbs, ∀ g ∈ bb.outs, g ≠ qPort → c.fanout (u.1 ++ "." ++ g) = [])
    (uc : Circuit) (ioMap : List (Name × List Name))
    (h : Tx.sequentialUnroll c n dPort qPort ignore afo initStr [] ru pfx ord = .ok (uc, ioMap)) :
    lint uc {} ord' = Outcome.ok := by
  obtain ⟨hcl, hnd⟩ := LintProdG.seq_unroll_clean hord hc.toHelper hc.pinsOwned hclash hig hinit hdots hpfx hextra h
  exact lint_accepts uc ord' hord' hcl (registryOK_of_noDots hnd)


/-! ### composition calls -/

/-- **C20 (second half, add_subcircuit fully connected).** splicing a lint-clean child into a lint-clean parent with every
    child input fed from exactly one parent net (not a blackbox pin) and child outputs, if connected at all, added as
    extra operands of multi-input gates of the parent, gives a circuit that passes lint -/
theorem add_subcircuit_passes_lint (P sc P' : Circuit) (name : Name) (conns : List (Name × List Name)) (ord : Ord)
    (hord : OrdOK ord) (hP : LintClean P) (hrP : RegistryOK P) (hsc : LintClean sc) (hrsc : RegistryOK sc)
    (hname : hasDot name = false) (hkeys : (conns.map (·.1)).Nodup)
    (hin : ∀ i ∈ sc.inputs, ∃ u, (i, [u]) ∈ conns ∧ P.has u = true ∧ P.ty? u ≠ some "bb_input" ∧ P.ty? u ≠ some "bb_output")
    (hout : ∀ q ∈ conns, q.1 ∉ sc.inputs → ∀ v ∈ q.2, ∃ t ∈ multiTypes, P.ty? v = some t)
    (h : P.addSubcircuit sc name conns true = (P', .ok)) :
    lint P' {} ord = Outcome.ok :=
  LintProdE.addSub_passes_lint' P sc P' name conns ord hord hP hrP hsc hrsc hname hin h

/-- the same conclusion from less: `hkeys`, `hout` and the side conditions on the driving nets are not needed (a successful
    `connect` already refuses every wire that would break a fan-in / fan-out rule); it is enough that every child input
    receives at least one driver -/
theorem add_subcircuit_passes_lint_general (P sc P' : Circuit) (name : Name) (conns : List (Name × List Name)) (ord : Ord)
    (hord : OrdOK ord) (hP : LintClean P) (hrP : RegistryOK P) (hsc : LintClean sc) (hrsc : RegistryOK sc)
    (hname : hasDot name = false)
    (hin : ∀ i ∈ sc.inputs, ∃ us, (i, us) ∈ conns ∧ us ≠ [])
    (h : P.addSubcircuit sc name conns true = (P', .ok)) :
    lint P' {} ord = Outcome.ok :=
  LintProdE.addSub_passes_lint P sc P' name conns ord hord hP hrP hsc hrsc hname hin h

/-- **C20 (second half, fill_blackbox).** the plain statement "filling an instance of a lint-clean parent with a lint-clean
    child gives a circuit that passes lint" (with RegistryOK for both, a dot-free instance name, full attributes, child outputs
    that are neither pins nor inputs) is refuted: `LintProdECex.cexDot` (the parent has an ordinary buffer `u.zz` named after the
    instance `u` that is filled: it keeps its dotted name while `u` leaves the registry) and `LintProdECex.cexShared`
    (the node `u.p.y` is pin `p.y` of the filled instance `u` and pin `y` of the instance `u.p`, which stays recorded
    without its pin node) satisfy every hypothesis, the call succeeds, and lint rejects the result -/
theorem fill_blackbox_passes_lint_false :
    ¬ (∀ (P sub P' : Circuit) (inst : Name) (ord ord' : Ord), OrdOK ord → OrdOK ord' →
      LintClean P → RegistryOK P → LintClean sub → RegistryOK sub → hasDot inst = false →
      (∀ p ∈ sub.nodes, p.2.ty.isSome = true ∧ p.2.out.isSome = true) →
      (∀ n ∈ sub.outputs, sub.ty? n ≠ some "bb_input" ∧ sub.ty? n ≠ some "bb_output") →
      (∀ n ∈ sub.outputs, n ∉ sub.inputs) →
      P.fillBlackbox inst sub ord = (P', .ok) → lint P' {} ord' = Outcome.ok) :=
  LintProdECex.fill_blackbox_passes_lint_false

/-- the two missing hypotheses: every dotted node of the parent named after the filled instance is one of its declared
    pins … -/
def DotsArePinsOf (P : Circuit) (inst : Name) : Prop :=
  ∀ bb, P.bbs.lookup inst = some bb → ∀ g ∈ P.nodeNames, hasDot g = true → dotPrefix g = inst →
    ∃ p ∈ bb.outs ++ bb.ins, g = inst ++ "." ++ p
/-- … and no other recorded instance claims a pin node of the filled instance (true when the other instance names are
    dot-free: `LintProdE.pinsNotShared_of_nodot`) -/
def PinsNotShared (P : Circuit) (inst : Name) : Prop :=
  ∀ bb, P.bbs.lookup inst = some bb → ∀ q ∈ P.bbs, q.1 ≠ inst → ∀ g ∈ q.2.ins ++ q.2.outs, ∀ p ∈ bb.ins ++ bb.outs,
    q.1 ++ "." ++ g ≠ inst ++ "." ++ p

/-- glue: these are the predicates of the helper files -/
theorem dotsArePinsOf_eq : @DotsArePinsOf = @LintProdE.DotsArePinsOf := rfl
theorem pinsNotShared_eq : @PinsNotShared = @LintProdE.PinsNotShared := rfl

/-- **C20 (second half, fill_blackbox), corrected.** filling an instance of a lint-clean parent with a lint-clean child
    (whose outputs are not blackbox pins of its own: K22) gives a circuit that passes lint, when the dotted nodes named
    after the instance are exactly its pins and no other instance shares them (`hio` of the original is not needed) … -/
theorem fill_blackbox_passes_lint_fixed (P sub P' : Circuit) (inst : Name) (ord ord' : Ord) (hord : OrdOK ord)
    (hord' : OrdOK ord') (hP : LintClean P) (hrP : RegistryOK P) (hsub : LintClean sub) (hrsub : RegistryOK sub)
    (hinst : hasDot inst = false)
    (hfull : ∀ p ∈ sub.nodes, p.2.ty.isSome = true ∧ p.2.out.isSome = true)
    (hpins : ∀ n ∈ sub.outputs, sub.ty? n ≠ some "bb_input" ∧ sub.ty? n ≠ some "bb_output")
    (hdots : DotsArePinsOf P inst) (hshared : PinsNotShared P inst)
    (h : P.fillBlackbox inst sub ord = (P', .ok)) :
    lint P' {} ord' = Outcome.ok :=
  LintProdE.fill_passes_lint P sub P' inst ord ord' hord hord' hP hrP hsub hrsub hinst hfull hpins hdots hshared h

/-- … and these two conditions are exactly what is needed: under the remaining hypotheses and for a successful call, the
    result passes lint if and only if they hold -/
theorem fill_blackbox_passes_lint_iff (P sub P' : Circuit) (inst : Name) (ord ord' : Ord) (hord : OrdOK ord)
    (hord' : OrdOK ord') (hP : LintClean P) (hrP : RegistryOK P) (hsub : LintClean sub) (hrsub : RegistryOK sub)
    (hinst : hasDot inst = false)
    (hfull : ∀ p ∈ sub.nodes, p.2.ty.isSome = true ∧ p.2.out.isSome = true)
    (hpins : ∀ n ∈ sub.outputs, sub.ty? n ≠ some "bb_input" ∧ sub.ty? n ≠ some "bb_output")
    (h : P.fillBlackbox inst sub ord = (P', .ok)) :
    lint P' {} ord' = Outcome.ok ↔ DotsArePinsOf P inst ∧ PinsNotShared P inst :=
  LintProdE.fill_passes_lint_iff P sub P' inst ord ord' hord hord' hP hrP hsub hrsub hinst hfull hpins h


/-! ### readers -/

/-- **C20 (second half, bench reader).** the circuit built for a well-formed bench netlist passes lint -/
theorem bench_build_passes_lint (name : String) (ins : List Name) (gates : List (Name × String × List Name))
    (dffs : List (Name × Name)) (outs : List Name) (hw : C15.WellFormed ins gates dffs outs) (ord : Ord) (hord : OrdOK ord) :
    ∃ c, Bench.build name (C15.stmtsOf ins gates dffs outs) = .ok c ∧ lint c {} ord = Outcome.ok :=
  LintProdF.build_passes_lint name ⟨hw.names, hw.defsNodup, hw.gateTy, hw.gateArity, hw.uses, hw.dffUses, hw.outsDef⟩
    ord hord

/-- **C20 (second half, bench round trip).** what the bench reader builds from the writer's statements for a writable circuit
    passes lint -/
theorem bench_roundtrip_passes_lint (c : Circuit) (ord ord' : Ord) (hord : OrdOK ord) (hord' : OrdOK ord') (hc : C15.Writable c) :
    ∃ ss c', Bench.toStmts c ord = .ok ss ∧ Bench.build c.name ss = .ok c' ∧ lint c' {} ord' = Outcome.ok :=
  LintProdF.roundtrip_passes_lint ⟨hc.clean, hc.nobb, hc.hasInput, hc.types, hc.names⟩ hord hord'

/-! ### the Verilog readers -/

/-- every input pin of a blackbox instance is connected (to a net or to a constant) -/
def inPinsConnected (bbs : List BBox) : C14.RStmt → Bool
  | .bb ty _ pins =>
    match bbs.find? (fun b => b.name == ty) with
    | some d => d.ins.all (fun g => pins.any (fun p => p.1 == g && p.2.isSome))
    | none => true
  | _ => true

/-- no floating wires: every net that is read (gate operand, assign source, connected blackbox input pin) is an input or
    is driven by some statement, and no blackbox input pin is left open (`.clk()` or not listed at all: both readers
    create the pin node, and lint's default `undriven=True` rejects a `bb_input` without a driver, like the undriven
    `buf` a floating wire becomes) -/
def NoFloating (r : C14.RMod) (bbs : List BBox) : Prop :=
  (∀ s ∈ r.stmts, ∀ n ∈ s.uses bbs, n ∈ r.inputs ∨ n ∈ r.stmts.flatMap (C14.RStmt.defs bbs)) ∧
  (∀ s ∈ r.stmts, inPinsConnected bbs s = true)

instance (r : C14.RMod) (bbs : List BBox) : Decidable (NoFloating r bbs) := by
  unfold NoFloating; infer_instance

/-- glue: the helper files state the predicate on their mirror of C14's vocabulary -/
theorem driven_of_noFloating {r : C14.RMod} {bbs : List BBox} (hd : NoFloating r bbs) :
    LintProdFV.Driven (C14.Glue.mod r) bbs := by
  refine ⟨?_, ?_⟩
  · intro s hs n hn
    obtain ⟨s0, hs0, rfl⟩ := List.mem_map.1 hs
    rw [C14.Glue.stmt_uses] at hn
    show n ∈ r.inputs ∨ n ∈ (r.stmts.map C14.Glue.stmt).flatMap (FV.RStmt.defs bbs)
    rw [C14.Glue.flatMap_stmts _ _ (C14.Glue.stmt_defs bbs)]
    exact hd.1 s0 hs0 n hn
  · intro ty inst pins hm d hdf g hg
    obtain ⟨s0, hs0, e⟩ := List.mem_map.1 hm
    have hc := hd.2 s0 hs0
    cases s0 with
    | gate ty' inst' out ops => cases e
    | assign l rr => cases e
    | bb ty' inst' pins' =>
      simp only [C14.Glue.stmt] at e
      injection e with e1 e2 e3
      subst e1 e2 e3
      simp only [inPinsConnected, hdf, List.all_eq_true, List.any_eq_true, Bool.and_eq_true, beq_iff_eq] at hc
      obtain ⟨p, hp, hp1, hp2⟩ := hc g hg
      obtain ⟨o, ho⟩ := Option.isSome_iff_exists.1 hp2
      exact ⟨C14.Glue.op o, List.mem_map.2 ⟨p, hp, by rw [← hp1, ho]; rfl⟩⟩

/-- **C20 (second half, Verilog readers).** for a netlist of the restricted subset of C14 without floating wires, the fast
    reader and the full reader both succeed and what they build passes lint, for every statement order, every
    set-iteration order of either reader and every iteration order of lint -/
theorem verilog_readers_pass_lint (r : C14.RMod) (bbs : List BBox) (ord ordIn ord' ord'' : Ord) (hord : OrdOK ord)
    (hordIn : OrdOK ordIn) (hord' : OrdOK ord') (hord'' : OrdOK ord'') (h : C14.Restricted r bbs)
    (hd : NoFloating r bbs) :
    ∃ cf cv, FastVerilog.assemble r.toFParsed bbs ord ordIn = .ok cf ∧ Verilog.transform r.toModule bbs ord' = .ok cv ∧
      lint cf {} ord'' = Outcome.ok ∧ lint cv {} ord'' = Outcome.ok := by
  have key := LintProdFV.readers_pass_lint (C14.Glue.restricted h) (driven_of_noFloating hd) ord ordIn ord' ord''
    hord hordIn hord' hord''
  rw [C14.Glue.toFParsed, C14.Glue.toModule] at key
  exact key

/-! non-vacuity: `C14.ex` with its clock pin connected (a constant on `d` of a second flop, an assign, use before
    definition); `C14.ex` itself leaves `u.clk` open, is not `NoFloating`, and is rejected by lint -/
def exV : C14.RMod :=
  { name := "top", inputs := ["a", "b", "ck"], outputs := ["o", "q"],
    stmts := [.gate "nand" "g_1" "o" [.net "w", .net "b", .c1],
              .bb "ff" "u" [("clk", some (.net "ck")), ("d", some (.net "o")), ("q", some (.net "q"))],
              .bb "ff" "u2" [("clk", some (.net "ck")), ("d", some .c0), ("q", none)],
              .assign "w" (.net "a")] }
example : NoFloating exV [C14.exBB] := by decide +kernel
example : ¬ NoFloating C14.ex [C14.exBB] := by decide +kernel
example : ¬ NoFloating C14.exF [C14.exBB] := by decide +kernel
example : ((FastVerilog.assemble exV.toFParsed [C14.exBB] id id).toOption.map (fun c => (c.nodes.length, lint c {} id)),
    (Verilog.transform exV.toModule [C14.exBB] id).toOption.map (fun c => (c.nodes.length, lint c {} id)),
    (FastVerilog.assemble C14.ex.toFParsed [C14.exBB] id id).toOption.map (fun c => lint c {} id)) =
    (some (14, Outcome.ok), some (14, Outcome.ok), some Outcome.valueError) := by
  decide +kernel


/-! non-vacuity: the hypotheses of the producer theorems are satisfiable (the example circuits of C09/C10/C11/C05) -/
private theorem registryOK_of_checks (c : Circuit) (hb : c.bbs = []) (hd : ∀ g ∈ c.nodeNames, hasDot g = false) :
    RegistryOK c := by
  refine ⟨fun g hg h => ?_, fun p hp => ?_⟩
  · rw [hd g hg] at h; cases h
  · rw [hb] at hp; cases hp
example : C10.Good C10.ex ∧ RegistryOK C10.ex ∧ (Tx.ternary C10.ex id).toOption.isSome = true :=
  ⟨⟨Limit.lintClean_of_checks C10.ex ⟨by decide, by decide, by decide⟩ (by decide) (by decide) (by decide), rfl,
      by decide, by decide, ⟨fun n => ["a", "b", "k", "g", "h", "i"].idxOf n, by decide⟩⟩,
    registryOK_of_checks _ rfl (by decide), by decide⟩
example : C09.Good C09.tog ∧ C09.Pairing C09.tog [("nx", "s")] ∧ RegistryOK C09.tog ∧ hasDot "cg_unroll" = false :=
  ⟨⟨Limit.lintClean_of_checks C09.tog ⟨by decide, by decide, by decide⟩ (by decide) (by decide) (by decide), rfl⟩,
    ⟨by decide, by decide, by decide, by decide, by decide⟩, registryOK_of_checks _ rfl (by decide), by decide⟩
example : LintClean C05.exReg ∧ RegistryOK C05.exReg ∧ (Tx.insertRegisters C05.exReg 1 id 100).toOption.isSome = true :=
  ⟨Limit.lintClean_of_checks C05.exReg ⟨by decide, by decide, by decide⟩ (by decide) (by decide) (by decide),
    registryOK_of_checks _ rfl (by decide), by decide +kernel⟩
/-- the flop example of C06 satisfies the two conditions of `strip_blackboxes_passes_lint_fixed` with its clock ignored -/
example : DotsArePins C06.exStrip ∧ DroppedOutsUnloaded C06.exStrip ["clk"] := by
  refine ⟨by unfold DotsArePins; decide, fun n hty hig => ?_⟩
  have hmem : n ∈ C06.exStrip.nodeNames := (Circuit.has_iff_mem _ n).1 (Circuit.has_of_ty? hty)
  revert hty hig
  revert n
  decide

end CG.C20
