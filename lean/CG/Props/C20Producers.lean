/-
  C20 (second half, continued) — further producers of lint-clean circuits: ternary, remove_unloaded, unroll,
  strip_blackboxes, insert_registers (and the sensitivity transforms / fully tied miters below).  Kept in a file of its
  own because the helper lemmas (CG/Proofs/LintProd*.lean) are stated with `C20.RegistryOK` / `C20.lint_accepts` and
  therefore import CG/Props/C20.lean.  Property theorems only.
-/
import CG.Props.C20
import CG.Props.C04
import CG.Props.C06
import CG.Props.C09
import CG.Props.C10
import CG.Props.C11
import CG.Props.C15
import CG.Props.C16
import CG.Proofs.LintProdA6
import CG.Proofs.LintProdBUnrollB
import CG.Proofs.LintProdD5
import CG.Proofs.LintProdD6
import CG.Proofs.LintProdDCex
import CG.Proofs.LintProdCSensz
import CG.Proofs.LintProdCSenC
namespace CG.C20

/-- blackbox-free circuits without dotted names have a consistent registry (restated for convenience) -/
theorem registryOK_nobb_iff (c : Circuit) (hb : c.bbs = []) : RegistryOK c ↔ LintLink.NoDots c :=
  LintProdA.registryOK_nobb_iff c hb

/-- **C20 (second half, ternary).** the ternary encoding of a good circuit passes lint -/
theorem ternary_passes_lint (c : Circuit) (ord ord' : Ord) (hord : OrdOK ord) (hord' : OrdOK ord') (hc : C10.Good c)
    (hr : RegistryOK c) (t : Circuit) (mapping : List (Name × Name)) (h : Tx.ternary c ord = .ok (t, mapping)) :
    lint t {} ord' = Outcome.ok := by
  obtain ⟨hcl, hreg⟩ := LintProdA.ternary_clean c ord hord hc.toC hc.nobb hr t mapping h
  exact lint_accepts t ord' hord' hcl hreg

/-- **C20 (second half, remove_unloaded).** deleting the dead logic of a lint-clean acyclic circuit leaves a lint-clean
    circuit (with `inputs=True` for blackbox-free circuits, as the property states) -/
theorem remove_unloaded_passes_lint (c c' : Circuit) (inputs : Bool) (ord ord' : Ord) (hord : OrdOK ord) (hord' : OrdOK ord')
    (hc : LintClean c) (hr : RegistryOK c) (hacyc : Acyclic c) (hin : inputs = false ∨ c.bbs = [])
    (removed : List Name) (h : c.removeUnloaded inputs ord = some (c', removed)) :
    lint c' {} ord' = Outcome.ok := by
  obtain ⟨hcl, hreg⟩ := LintProdA.remove_unloaded_clean c c' inputs ord hord hc hr hacyc hin removed h
  exact lint_accepts c' ord' hord' hcl hreg

/-- **C20 (second half, unroll).** the unrolled circuit (per-step copies, state inputs of later steps driven by the state
    outputs of the step before, step-0 state inputs and the other per-step inputs primary inputs) passes lint -/
theorem unroll_passes_lint (c uc : Circuit) (n : Nat) (stateIO : List (Name × Name)) (pfx : String) (ord ord' : Ord)
    (hord : OrdOK ord) (hord' : OrdOK ord') (hc : C09.Good c) (hp : C09.Pairing c stateIO) (hr : RegistryOK c)
    (hpfx : hasDot pfx = false) (ioMap : List (Name × List Name))
    (h : Tx.unroll c n stateIO pfx ord = .ok (uc, ioMap)) :
    lint uc {} ord' = Outcome.ok := by
  obtain ⟨hcl, hnd⟩ := LintProdB.unroll_clean hord hc.clean (LintProdB.noDots_of_registered hc.nobb hr.1)
    hp.valsIn hp.valsNodup hpfx h
  exact lint_accepts uc ord' hord' hcl (registryOK_of_noDots hnd)

/-- **C20 (second half, strip_blackboxes).** the plain statement "the stripped version of a lint-clean circuit with a consistent
    registry passes lint" is refuted: `LintProdDCex.cexDot` (a dotted primary input `u.x` named after a recorded instance:
    it keeps its dotted name while the registry is emptied) and `LintProdDCex.cexDrop` (the ignored output pin `u.q`
    drives the buffer `o`, which stays behind undriven) satisfy every hypothesis, the call succeeds, and lint rejects
    the result -/
theorem strip_blackboxes_passes_lint_false :
    ¬ (∀ (c c' : Circuit) (ignore : List Name) (ord ord' : Ord), OrdOK ord → OrdOK ord' →
      LintClean c → RegistryOK c → Tx.stripBlackboxes c ignore ord = .ok c' → lint c' {} ord' = Outcome.ok) :=
  LintProdDCex.strip_blackboxes_passes_lint_false

/-- the two missing hypotheses: every dotted node of the argument is a blackbox pin node … -/
def DotsArePins (c : Circuit) : Prop :=
  ∀ g ∈ c.nodeNames, hasDot g = true → c.ty? g = some "bb_input" ∨ c.ty? g = some "bb_output"
/-- … and an output pin deleted through `ignore_pins` drives nothing -/
def DroppedOutsUnloaded (c : Circuit) (ignore : List Name) : Prop :=
  ∀ n, c.ty? n = some "bb_output" → ignore.contains (Tx.lastDot n) = true → c.fanout n = []

/-- glue: these are the predicates of the helper files -/
theorem dotsArePins_eq : @DotsArePins = @LintProdD.DotsArePins := rfl
theorem droppedOutsUnloaded_eq : @DroppedOutsUnloaded = @LintProdD.DroppedOutsUnloaded := rfl

/-- **C20 (second half, strip_blackboxes), corrected.** the stripped version of a lint-clean circuit passes lint when
    every dotted node is a pin and the ignored output pins are unloaded (`RegistryOK c` is not needed: the result has no
    registry) … -/
theorem strip_blackboxes_passes_lint_fixed (c c' : Circuit) (ignore : List Name) (ord ord' : Ord) (hord : OrdOK ord)
    (hord' : OrdOK ord') (hc : LintClean c) (hdots : DotsArePins c) (hdrop : DroppedOutsUnloaded c ignore)
    (h : Tx.stripBlackboxes c ignore ord = .ok c') :
    lint c' {} ord' = Outcome.ok :=
  LintProdD.strip_passes_lint c c' ignore ord ord' hord hord' hc hdots hdrop h

/-- … and these two conditions are exactly what is needed: for a lint-clean argument and a successful call, the result
    passes lint if and only if they hold -/
theorem strip_blackboxes_passes_lint_iff (c c' : Circuit) (ignore : List Name) (ord ord' : Ord) (hord : OrdOK ord)
    (hord' : OrdOK ord') (hc : LintClean c) (h : Tx.stripBlackboxes c ignore ord = .ok c') :
    lint c' {} ord' = Outcome.ok ↔ DotsArePins c ∧ DroppedOutsUnloaded c ignore :=
  ⟨LintProdD.strip_conditions_of_lint c c' ignore ord ord' hord hord' hc h,
    fun hh => LintProdD.strip_passes_lint c c' ignore ord ord' hord hord' hc hh.1 hh.2 h⟩

/-- **C20 (second half, insert_registers).** the pipelined circuit (flop instances spliced into wires, one shared clock)
    passes lint: every instance is registered with all its pins -/
theorem insert_registers_passes_lint (c c' : Circuit) (k : Nat) (ord ord' : Ord) (hord : OrdOK ord) (hord' : OrdOK ord') (fuel : Nat)
    (hc : LintClean c) (hnobb : c.bbs = []) (hr : RegistryOK c) (h : Tx.insertRegisters c k ord fuel = .ok c') :
    lint c' {} ord' = Outcome.ok := by
  obtain ⟨hcl, hreg⟩ := LintProdD.insert_registers_clean c c' k ord hord fuel hc hnobb hr h
  exact lint_accepts c' ord' hord' hcl hreg

/-- **C20 (second half, sensitization_transform).** the result (a self-miter with every startpoint tied, `n` inverted in
    the second copy) passes lint -/
theorem sensitization_passes_lint (c m : Circuit) (n : Name) (ord ord' : Ord) (ordE : List (Name × Name) → List (Name × Name))
    (hord : OrdOK ord) (hord' : OrdOK ord') (hc : C11.Good c) (hr : RegistryOK c) (hn : c.has n = true)
    (hout : c.outputs ≠ []) (hin : c.inputs ≠ [])
    (h : Tx.sensitizationTransform c n [] ord ordE = .ok m) :
    lint m {} ord' = Outcome.ok := by
  obtain ⟨hcl, hnd⟩ := LintProd.sensitization_clean hord hc.clean hc.nobb hr.1 hout hin h
  exact lint_accepts m ord' hord' hcl (registryOK_of_noDots hnd)

/-- **C20 (second half, sensitivity_transform).** the result (original cone, one copy per startpoint with that startpoint
    inverted, comparators and the population count) passes lint -/
theorem sensitivity_transform_passes_lint (c sen : Circuit) (n : Name) (ord ord' : Ord) (hord : OrdOK ord) (hord' : OrdOK ord')
    (hc : C11.Good c) (hr : RegistryOK c) (hn : c.has n = true) (h : Tx.sensitivityTransform c n ord = .ok sen) :
    lint sen {} ord' = Outcome.ok := by
  obtain ⟨hcl, hnd⟩ := LintProd.sensitivity_clean hord hc.clean hc.nobb hr.1 hn h
  exact lint_accepts sen ord' hord' hcl (registryOK_of_noDots hnd)

/-- **C20 (second half, miter with every startpoint tied).** the exception the property names is only about *untied*
    startpoints: when every input of both circuits is tied, the miter passes lint -/
theorem miter_tied_passes_lint (c0 c1 m : Circuit) (sp ep : List Name) (ord ord' : Ord) (hord : OrdOK ord) (hord' : OrdOK ord')
    (h0 : C04.Good c0) (h1 : C04.Good c1) (hr0 : RegistryOK c0) (hr1 : RegistryOK c1) (hne : c1.nodes ≠ [])
    (hs : C04.Shared c0 c1 sp ep) (hsp : sp ≠ []) (hep : ep ≠ [])
    (hall0 : ∀ i ∈ c0.inputs, i ∈ sp) (hall1 : ∀ i ∈ c1.inputs, i ∈ sp)
    (h : Tx.miter c0 (some c1) (some sp) (some ep) ord = .ok m) :
    lint m {} ord' = Outcome.ok := by
  obtain ⟨hcl, hnd⟩ := LintProd.miter_tied_clean h0.clean h1.clean h0.nobb h1.nobb hr0.1 hr1.1 hne hs.spNodup
    hs.epNodup hs.sp0 hs.ep0 hsp hep hall0 hall1 h
  exact lint_accepts m ord' hord' hcl (registryOK_of_noDots hnd)


/-! non-vacuity: the hypotheses of the producer theorems are satisfiable (the example circuits of C09/C10/C11/C05) -/
private theorem registryOK_of_checks (c : Circuit) (hb : c.bbs = []) (hd : ∀ g ∈ c.nodeNames, hasDot g = false) :
    RegistryOK c := by
  refine ⟨fun g hg h => ?_, fun p hp => ?_⟩
  · rw [hd g hg] at h; cases h
  · rw [hb] at hp; cases hp
example : C10.Good C10.ex ∧ RegistryOK C10.ex ∧ (Tx.ternary C10.ex id).toOption.isSome = true :=
  ⟨⟨Limit.lintClean_of_checks C10.ex ⟨by decide, by decide, by decide⟩ (by decide) (by decide) (by decide), rfl,
      by decide, by decide, ⟨fun n => ["a", "b", "k", "g", "h", "i"].idxOf n, by decide⟩⟩,
    registryOK_of_checks _ rfl (by decide), by decide⟩
example : C09.Good C09.tog ∧ C09.Pairing C09.tog [("nx", "s")] ∧ RegistryOK C09.tog ∧ hasDot "cg_unroll" = false :=
  ⟨⟨Limit.lintClean_of_checks C09.tog ⟨by decide, by decide, by decide⟩ (by decide) (by decide) (by decide), rfl⟩,
    ⟨by decide, by decide, by decide, by decide, by decide⟩, registryOK_of_checks _ rfl (by decide), by decide⟩
example : LintClean C05.exReg ∧ RegistryOK C05.exReg ∧ (Tx.insertRegisters C05.exReg 1 id 100).toOption.isSome = true :=
  ⟨Limit.lintClean_of_checks C05.exReg ⟨by decide, by decide, by decide⟩ (by decide) (by decide) (by decide),
    registryOK_of_checks _ rfl (by decide), by decide +kernel⟩
/-- the flop example of C06 satisfies the two conditions of `strip_blackboxes_passes_lint_fixed` with its clock ignored -/
example : DotsArePins C06.exStrip ∧ DroppedOutsUnloaded C06.exStrip ["clk"] := by
  refine ⟨by unfold DotsArePins; decide, fun n hty hig => ?_⟩
  have hmem : n ∈ C06.exStrip.nodeNames := (Circuit.has_iff_mem _ n).1 (Circuit.has_of_ty? hty)
  revert hty hig
  revert n
  decide

end CG.C20
