/-
  C03 — Verilog write -> read round trip preserves the circuit.
  Theorems are about the statement level: `Verilog.toWModule` (what `circuit_to_verilog` emits, as a syntax tree whose
  rendering `Verilog.render` is compared byte-for-byte with the real writer) followed by `Verilog.transform` (the
  reader's transformer).  Lexing/parsing of the rendered text back into that tree is tied by differential testing only
  (C03_partial), as is the file system path of to_file/from_file.
  Property theorems only; helper lemmas live in CG/Proofs/VRound*.lean.
-/
import CG.Verilog
import CG.VerilogTables
import CG.Spec
import CG.Props.C06
import CG.Proofs.VRound
import CG.Props.C02
import CG.Proofs.VRoundBeh
import CG.Proofs.VText
import CG.Proofs.VRoundBehBBMain
namespace CG.C03
open Verilog

/-- names the round trip is stated for: acceptable to `add`, plain identifiers (escaped identifiers are exercised by the
    differential tests only), not one of the reader's reserved constant names -/
def PlainName (n : Name) : Prop :=
  n ≠ "" ∧ Circuit.isDigit0 n = false ∧ ¬ n.toList.contains '.' ∧ ¬ n.startsWith "\\" ∧
  n ≠ "tie_0" ∧ n ≠ "tie_1" ∧ n ≠ "tie_x"

/-- a circuit the writer is specified for -/
structure Writable (c : Circuit) : Prop where
  clean : LintClean c
  full : ∀ p ∈ c.nodes, p.2.ty.isSome = true ∧ p.2.out.isSome = true
  names : ∀ p ∈ c.nodes, (p.2.ty ≠ some "bb_input" ∧ p.2.ty ≠ some "bb_output") → PlainName p.1
  /-- the registry and the pin nodes agree -/
  pins : ∀ p ∈ c.nodes, (p.2.ty = some "bb_input" ∨ p.2.ty = some "bb_output") →
    ∃ q ∈ c.bbs, ∃ g, p.1 = q.1 ++ "." ++ g ∧ ((p.2.ty = some "bb_input" ∧ g ∈ q.2.ins) ∨ (p.2.ty = some "bb_output" ∧ g ∈ q.2.outs))
  pinsPresent : ∀ q ∈ c.bbs, (∀ g ∈ q.2.ins, c.ty? (q.1 ++ "." ++ g) = some "bb_input") ∧
    (∀ g ∈ q.2.outs, c.ty? (q.1 ++ "." ++ g) = some "bb_output") ∧ PlainName q.1 ∧ PlainName q.2.name ∧
    q.2.name ∉ CG.Expected.primitive_gates ∧ (∀ g ∈ q.2.ins ++ q.2.outs, PlainName g) ∧ q.2.ins.Nodup ∧ q.2.outs.Nodup ∧
    (∀ g ∈ q.2.ins, g ∉ q.2.outs)
  bbsNodup : (c.bbs.map (·.1)).Nodup
  /-- one definition per blackbox type name -/
  bbTypes : ∀ q ∈ c.bbs, ∀ r ∈ c.bbs, q.2.name = r.2.name → q.2 = r.2
  /-- a blackbox output pin does not drive an output pin's buffer shared with another driver (lint) — implied by clean -/
  noPinOutputs : ∀ p ∈ c.nodes, (p.2.ty = some "bb_input" ∨ p.2.ty = some "bb_output") → p.2.out = some false

theorem Writable.wr {c : Circuit} (hc : Writable c) : VR.Wr c :=
  ⟨hc.clean, hc.full, hc.names, hc.pins, hc.pinsPresent, hc.bbsNodup, hc.bbTypes, hc.noPinOutputs⟩

/-- the blackbox definitions handed to the reader: the distinct types instantiated in the circuit -/
def bbDefs (c : Circuit) : List BBox := c.bbs.map (·.2)

/-- same circuit up to the order of nodes, wires and registry entries -/
def SameGraph (a b : Circuit) : Prop :=
  a.name = b.name ∧ (∀ n, a.attr? n = b.attr? n) ∧ (∀ e, e ∈ a.edges ↔ e ∈ b.edges) ∧
  (∀ q, q ∈ a.bbs ↔ q ∈ b.bbs) ∧ WF b

/-- **C03 (gate-primitive form, no constants).** reading back what the writer emits gives an identical graph: same
    name, nodes, types, output marks, wires and blackbox instances with the same net on every pin (connected or
    unconnected), for every emission order and every order the reader uses -/
theorem roundtrip_struct (c : Circuit) (ord ord' : Ord) (hord : OrdOK ord) (hord' : OrdOK ord') (hc : Writable c)
    (hnc : ∀ p ∈ c.nodes, p.2.ty ≠ some "0" ∧ p.2.ty ≠ some "1" ∧ p.2.ty ≠ some "x") :
    ∃ wm c', toWModule c false ord = .ok wm ∧ transform wm.toModule (bbDefs c) ord' = .ok c' ∧ SameGraph c c' := by
  obtain ⟨wm, c', hw, ht, r⟩ := VR.replay c ord ord' hord hord' hc.wr
  have hnc' : ∀ x t, c.ty? x = some t → t ∉ VR.constTys := by
    intro x t hx htc
    obtain ⟨a, ha, hat⟩ := VR.ty_mem hx
    obtain ⟨h0, h1, hx'⟩ := hnc (x, a) ha
    simp only [VR.constTys, List.mem_cons, List.not_mem_nil, or_false] at htc
    rcases htc with rfl | rfl | rfl
    · exact h0 hat
    · exact h1 hat
    · exact hx' hat
  obtain ⟨hattr, hedges⟩ := VR.struct_of_result hc.wr r hnc'
  exact ⟨wm, c', hw, ht, r.name.symm, hattr, hedges, fun q => by rw [r.bbs], r.wf⟩

/-- **C03 (gate-primitive form with constants).** constants come back as buffers of the reader's constant nodes: same
    name, inputs, outputs and blackbox registry, and the result refines the original on every original node -/
theorem roundtrip_consts (c : Circuit) (ord ord' : Ord) (hord : OrdOK ord) (hord' : OrdOK ord') (hc : Writable c) :
    ∃ wm c', toWModule c false ord = .ok wm ∧ transform wm.toModule (bbDefs c) ord' = .ok c' ∧
      c'.name = c.name ∧ (∀ x, x ∈ c'.inputs ↔ x ∈ c.inputs) ∧ (∀ x, x ∈ c'.outputs ↔ x ∈ c.outputs) ∧
      (∀ q, q ∈ c'.bbs ↔ q ∈ c.bbs) ∧
      (∀ v', Consistent c' v' → Consistent c v') := by
  obtain ⟨wm, c', hw, ht, r⟩ := VR.replay c ord ord' hord hord' hc.wr
  exact ⟨wm, c', hw, ht, r.name, VR.inputs_of_result hc.wr r, VR.outputs_of_result r, fun q => by rw [r.bbs],
    VR.consistent_of_result hc.wr r⟩

/-- the emitted module declares exactly the circuit's inputs and outputs as ports, and every gate/constant as a wire -/
theorem write_decls (c : Circuit) (beh : Bool) (ord : Ord) (hord : OrdOK ord) (hc : Writable c) (wm : WModule)
    (h : toWModule c beh ord = .ok wm) :
    wm.name = c.name ∧ (∀ x, x ∈ wm.inputs ↔ x ∈ c.inputs) ∧ (∀ x, x ∈ wm.outputs ↔ x ∈ c.outputs) ∧
    (∀ x, x ∈ wm.wires ↔ ∃ t, c.ty? x = some t ∧ t ∈ gateTypes ++ ["0", "1", "x"]) := by
  obtain ⟨h1, h2, h3, h4⟩ := VR.write_decls' c beh ord hord hc.wr wm h
  exact ⟨h1, fun x => h2.mem_iff, fun x => h3.mem_iff, h4⟩

/-- to_file / from_file dispatch: the format is chosen by `fmt`, else by the suffix; anything else is rejected -/
def dispatch (fmt suffix : String) : Option String :=
  if fmt == "verilog" || suffix == ".v" then some "verilog" else if fmt == "bench" || suffix == ".bench" then some "bench" else none
theorem dispatch_table :
    dispatch "" ".v" = some "verilog" ∧ dispatch "" ".bench" = some "bench" ∧ dispatch "verilog" ".txt" = some "verilog" ∧
    dispatch "bench" ".txt" = some "bench" ∧ dispatch "" ".txt" = none := by
  decide

/-! ### behavioural (assign) style -/

/-- **C03 (assign style, blackbox-free circuits).** reading back the behavioural text of a writable blackbox-free
    circuit without `x` constants whose node names do not look like the reader's synthetic gate names (their capture is
    known finding K29) gives a circuit with the same name, inputs and outputs that computes the same function on every
    original node: every consistent valuation of the result restricts to one of the original and every consistent
    valuation of the original extends — for every emission order and every reader order, any gate mix and arity
    (one-input and/or/xor become buffers, nand/nor/xnor inverters), cyclic circuits included -/
theorem roundtrip_behavioral (c : Circuit) (ord ord' : Ord) (hord : OrdOK ord) (hord' : OrdOK ord') (hc : Writable c)
    (hnobb : c.bbs = []) (hnx : ∀ p ∈ c.nodes, p.2.ty ≠ some "x")
    (hns : ∀ p ∈ c.nodes, ¬ C02.SyntheticLike p.1) :
    ∃ wm c', toWModule c true ord = .ok wm ∧ transform wm.toModule [] ord' = .ok c' ∧
      c'.name = c.name ∧ (∀ x, x ∈ c'.inputs ↔ x ∈ c.inputs) ∧ (∀ x, x ∈ c'.outputs ↔ x ∈ c.outputs) ∧
      (∀ v', Consistent c' v' → Consistent c v') ∧
      (∀ v, Consistent c v → ∃ v', Consistent c' v' ∧ ∀ n, c.has n = true → v' n = v n) := by
  exact VB.roundtrip c ord ord' hord hord' hc.wr hnobb hnx
    (fun p hp h => hns p hp (Or.inr (Or.inr (Or.inr h))))

/-- **C03 (assign style, circuits WITH blackbox instances).** as `roundtrip_behavioral`, for writable circuits that contain
    blackbox instances (connected or unconnected pins): reading back the behavioural text gives a circuit with the same name,
    inputs, outputs and registry in which every pin node is present with its type, fan-in and fan-out (the same net on every
    pin) and which computes the same function on every original node, both directions — for every emission order and every
    reader order -/
theorem roundtrip_behavioral_bb (c : Circuit) (ord ord' : Ord) (hord : OrdOK ord) (hord' : OrdOK ord') (hc : Writable c)
    (hnx : ∀ p ∈ c.nodes, p.2.ty ≠ some "x")
    (hns : ∀ p ∈ c.nodes, ¬ C02.SyntheticLike p.1) :
    ∃ wm c', toWModule c true ord = .ok wm ∧ transform wm.toModule (bbDefs c) ord' = .ok c' ∧
      c'.name = c.name ∧ (∀ x, x ∈ c'.inputs ↔ x ∈ c.inputs) ∧ (∀ x, x ∈ c'.outputs ↔ x ∈ c.outputs) ∧
      (∀ q, q ∈ c'.bbs ↔ q ∈ c.bbs) ∧
      (∀ n, (c.ty? n = some "bb_input" ∨ c.ty? n = some "bb_output") →
          c'.ty? n = c.ty? n ∧ (c'.fanin n).Perm (c.fanin n) ∧ (c'.fanout n).Perm (c.fanout n)) ∧
      (∀ v', Consistent c' v' → Consistent c v') ∧
      (∀ v, Consistent c v → ∃ v', Consistent c' v' ∧ ∀ n, c.has n = true → v' n = v n) := by
  exact VBB.roundtrip c ord ord' hord hord' hc.wr hnx
    (fun p hp h => hns p hp (Or.inr (Or.inr (Or.inr h))))

/-! ### text level: the reader's lexer and parser invert the writer's renderer

The theorems above relate syntax trees (`WModule.toModule`).  The two below close the gap to the emitted TEXT inside the
model: lexing and parsing the rendered text gives back exactly that tree, so the round trip holds for
`parseNetlist (write c …)`, i.e. for the characters the writer emits.  (What stays differential is the tie between this
model of the lexer/parser and lark, and the module-extraction regular expression of `verilog_to_circuit`.) -/

/-- a plain Verilog identifier as the lexer reads it: a letter or underscore followed by letters, digits, underscores,
    and not one of the six keywords of the dialect -/
def IdentOK (n : Name) : Prop :=
  (∃ ch rest, n.toList = ch :: rest ∧ (isLetter ch = true ∨ ch = '_') ∧
      ∀ x ∈ rest, isLetter x = true ∨ isDigit x = true ∨ x = '_') ∧
  n ∉ keywords

/-- every name the writer prints is a plain identifier: circuit name, ordinary nodes, instance names, blackbox type
    names and pin names -/
structure NamesOK (c : Circuit) : Prop where
  name : IdentOK c.name
  nodes : ∀ p ∈ c.nodes, (p.2.ty ≠ some "bb_input" ∧ p.2.ty ≠ some "bb_output") → IdentOK p.1
  insts : ∀ q ∈ c.bbs, IdentOK q.1 ∧ IdentOK q.2.name ∧ ∀ g ∈ q.2.ins ++ q.2.outs, IdentOK g

theorem NamesOK.nok {c : Circuit} (hn : NamesOK c) : VX.NOK c := ⟨hn.name, hn.nodes, hn.insts⟩

/-- **C03 (text level, parser inverts renderer).** for every writable circuit with identifier-like names, at least one
    port (`hio`) and at least one pin on every blackbox instance (`hpin`), and both output styles: the lexer accepts the
    rendered text and the parser returns exactly the statement list the writer produced.
    The two extra hypotheses are necessary: the writer prints `module m ();` for a circuit without ports and `ff u ();`
    for a blackbox without pins, and the reader's grammar rejects both empty lists (counterexamples `cexPorts`,
    `cexPins` below) -/
theorem render_parse (c : Circuit) (beh : Bool) (ord : Ord) (hord : OrdOK ord) (hc : Writable c) (hn : NamesOK c)
    (hio : c.inputs ≠ [] ∨ c.outputs ≠ []) (hpin : ∀ q ∈ c.bbs, q.2.ins ++ q.2.outs ≠ [])
    (wm : WModule) (h : toWModule c beh ord = .ok wm) :
    ∃ toks, lex (render wm) = some toks ∧ parseModule toks = some wm.toModule := by
  obtain ⟨toks, hl, hp⟩ := VX.module_text wm (VX.wok_of_write c beh ord hord hc.wr hn.nok hio hpin wm h)
  exact ⟨toks, VX.lex_of_lexes hl, hp⟩

/-- **C03 (text level, gate-primitive form).** hence the structural round trip holds for the emitted characters:
    `parseNetlist (write c false ord)` succeeds and returns a circuit with the same graph (same extra hypotheses as
    `render_parse`, for the same reason) -/
theorem roundtrip_text (c : Circuit) (ord ord' : Ord) (hord : OrdOK ord) (hord' : OrdOK ord') (hc : Writable c) (hn : NamesOK c)
    (hio : c.inputs ≠ [] ∨ c.outputs ≠ []) (hpin : ∀ q ∈ c.bbs, q.2.ins ++ q.2.outs ≠ [])
    (hnc : ∀ p ∈ c.nodes, p.2.ty ≠ some "0" ∧ p.2.ty ≠ some "1" ∧ p.2.ty ≠ some "x") :
    ∃ t c', write c false ord = .ok t ∧ parseNetlist t (bbDefs c) ord' = .ok c' ∧ SameGraph c c' := by
  obtain ⟨wm, c', hw, ht, hs⟩ := roundtrip_struct c ord ord' hord hord' hc hnc
  obtain ⟨toks, hl, hp⟩ := render_parse c false ord hord hc hn hio hpin wm hw
  refine ⟨render wm, c', ?_, ?_, hs⟩
  · unfold write
    rw [hw]
    rfl
  · unfold parseNetlist
    rw [hl]
    simp only []
    rw [hp]
    exact ht

/-! the two extra hypotheses of the text-level theorems are necessary: a writable circuit with identifier names and no
    ports, and one with a pin-less blackbox instance — the writer's text is rejected by the reader's parser -/
theorem plainName_of_checks (n : Name) (h : n ≠ "" ∧ Circuit.isDigit0 n = false ∧ ¬ n.toList.contains '.' ∧
    n.toList.head? ≠ some '\\' ∧ n ≠ "tie_0" ∧ n ≠ "tie_1" ∧ n ≠ "tie_x") : PlainName n := by
  refine ⟨h.1, h.2.1, h.2.2.1, ?_, h.2.2.2.2⟩
  rw [VR.startsWith_bs_iff]
  rintro ⟨l, hl⟩
  exact h.2.2.2.1 (by rw [hl]; rfl)
theorem namesOK_of_check {c : Circuit} (h : VX.namesB c = true) : NamesOK c :=
  ⟨(VX.names_of_namesB h).1, (VX.names_of_namesB h).2.1, (VX.names_of_namesB h).2.2⟩
def cexPorts : Circuit := { name := "m" }
def cexPins : Circuit :=
  { name := "m", nodes := [("a", { ty := some "input", out := some false })],
    bbs := [("u", { name := "ff", ins := [], outs := [] })] }
example : Writable cexPorts ∧ NamesOK cexPorts :=
  ⟨⟨Limit.lintClean_of_checks cexPorts ⟨by decide, by decide, by decide⟩ (by decide) (by decide) (by decide),
    by decide, fun _ hp => absurd hp List.not_mem_nil, fun _ hp => absurd hp List.not_mem_nil,
    fun _ hq => absurd hq List.not_mem_nil, by decide, by decide, by decide⟩, namesOK_of_check (by decide +kernel)⟩
example : Writable cexPins ∧ NamesOK cexPins := by
  have hbb : cexPins.bbs = [("u", { name := "ff", ins := [], outs := [] })] := rfl
  have hnodes : cexPins.nodes = [("a", { ty := some "input", out := some false })] := rfl
  refine ⟨⟨Limit.lintClean_of_checks cexPins ⟨by decide, by decide, by decide⟩ (by decide) (by decide) (by decide),
    by decide, ?_, ?_, ?_, by decide, by decide, by decide⟩, namesOK_of_check (by decide +kernel)⟩
  · intro p hp _
    rw [hnodes, List.mem_singleton] at hp
    subst hp
    exact plainName_of_checks _ (by decide)
  · intro p hp h
    rw [hnodes, List.mem_singleton] at hp
    subst hp
    rcases h with h | h <;> exact absurd h (by decide)
  · intro q hq
    rw [hbb, List.mem_singleton] at hq
    subst hq
    exact ⟨fun _ hg => absurd hg List.not_mem_nil, fun _ hg => absurd hg List.not_mem_nil,
      plainName_of_checks _ (by decide), plainName_of_checks _ (by decide), by decide,
      fun _ hg => absurd hg List.not_mem_nil, by decide, by decide, fun _ hg => absurd hg List.not_mem_nil⟩
/-- the writer succeeds on both; lexing succeeds, parsing fails: `module m ();` and `ff u ();` -/
example : ((toWModule cexPorts false id).toOption.map (fun wm => (render wm, (lex (render wm)).isSome,
      ((lex (render wm)).bind parseModule).isSome))) = some ("module m ();\n\n\n\nendmodule\n", true, false) ∧
    ((toWModule cexPins false id).toOption.map (fun wm => (render wm, (lex (render wm)).isSome,
      ((lex (render wm)).bind parseModule).isSome))) =
      some ("module m (a);\n  input a;\n\n\n\n  ff u ();\nendmodule\n", true, false) := by
  decide +kernel
example : ((write cexPorts false id).toOption.map (fun t => (parseNetlist t (bbDefs cexPorts) id).toOption.isSome)) = some false ∧
    ((write cexPins false id).toOption.map (fun t => (parseNetlist t (bbDefs cexPins) id).toOption.isSome)) = some false := by
  decide +kernel

/-! non-vacuity: a circuit with a flop whose clock pin is unconnected -/
def ex : Circuit :=
  { name := "top",
    nodes := [("a", { ty := some "input", out := some false }), ("b", { ty := some "input", out := some false }),
              ("g", { ty := some "nand", out := some false }), ("q", { ty := some "buf", out := some true }),
              ("u.clk", { ty := some "bb_input", out := some false }), ("u.d", { ty := some "bb_input", out := some false }),
              ("u.q", { ty := some "bb_output", out := some false })],
    edges := [("a", "g"), ("b", "g"), ("g", "u.d"), ("u.q", "q")],
    bbs := [("u", { name := "ff", ins := ["clk", "d"], outs := ["q"] })] }
example : ((toWModule ex false id).toOption.map (fun wm => render wm)) =
    some "module top (a, b, q);\n  input a;\n  input b;\n\n  output q;\n\n  wire g;\n  wire q;\n\n  ff u (.clk(), .d(g), .q(q));\n  nand g_1(g, a, b);\nendmodule\n" := by
  decide +kernel
example : ((toWModule ex false id).toOption.bind (fun wm => (transform wm.toModule (bbDefs ex) id).toOption)).map
    (fun c' => decide (c'.edges.length = ex.edges.length ∧ c'.nodes.length = ex.nodes.length)) = some true := by
  decide +kernel

/-- a `Writable` circuit exists (the hypotheses of the round-trip theorems are satisfiable): `ex` with its clock driven -/
def exW : Circuit :=
  { name := "top",
    nodes := [("a", { ty := some "input", out := some false }), ("b", { ty := some "input", out := some false }),
              ("g", { ty := some "nand", out := some false }), ("q", { ty := some "buf", out := some true }),
              ("u.clk", { ty := some "bb_input", out := some false }), ("u.d", { ty := some "bb_input", out := some false }),
              ("u.q", { ty := some "bb_output", out := some false })],
    edges := [("a", "g"), ("b", "g"), ("g", "u.d"), ("a", "u.clk"), ("u.q", "q")],
    bbs := [("u", { name := "ff", ins := ["clk", "d"], outs := ["q"] })] }
example : Writable exW := by
  have hbb : exW.bbs = [("u", { name := "ff", ins := ["clk", "d"], outs := ["q"] })] := rfl
  have pn : ∀ n : Name, (n ≠ "" ∧ Circuit.isDigit0 n = false ∧ ¬ n.toList.contains '.' ∧ n.toList.head? ≠ some '\\' ∧
      n ≠ "tie_0" ∧ n ≠ "tie_1" ∧ n ≠ "tie_x") → PlainName n := by
    intro n h
    refine ⟨h.1, h.2.1, h.2.2.1, ?_, h.2.2.2.2⟩
    rw [VR.startsWith_bs_iff]
    rintro ⟨l, hl⟩
    exact h.2.2.2.1 (by rw [hl]; rfl)
  refine ⟨Limit.lintClean_of_checks exW ⟨by decide, by decide, by decide⟩ (by decide) (by decide) (by decide),
    by decide, ?_, ?_, ?_, by decide, by decide, by decide⟩
  · have Q : ∀ p ∈ exW.nodes, (p.2.ty ≠ some "bb_input" ∧ p.2.ty ≠ some "bb_output") →
        (p.1 ≠ "" ∧ Circuit.isDigit0 p.1 = false ∧ ¬ p.1.toList.contains '.' ∧ p.1.toList.head? ≠ some '\\' ∧
          p.1 ≠ "tie_0" ∧ p.1 ≠ "tie_1" ∧ p.1 ≠ "tie_x") := by decide
    exact fun p hp h => pn p.1 (Q p hp h)
  · intro p hp
    simp only [exW, List.mem_cons, List.not_mem_nil, or_false] at hp
    rcases hp with rfl | rfl | rfl | rfl | rfl | rfl | rfl
    · intro h; rcases h with h | h <;> exact absurd h (by decide)
    · intro h; rcases h with h | h <;> exact absurd h (by decide)
    · intro h; rcases h with h | h <;> exact absurd h (by decide)
    · intro h; rcases h with h | h <;> exact absurd h (by decide)
    · intro _
      exact ⟨("u", { name := "ff", ins := ["clk", "d"], outs := ["q"] }), by rw [hbb]; exact List.mem_singleton.2 rfl,
        "clk", by decide, Or.inl ⟨rfl, by decide⟩⟩
    · intro _
      exact ⟨("u", { name := "ff", ins := ["clk", "d"], outs := ["q"] }), by rw [hbb]; exact List.mem_singleton.2 rfl,
        "d", by decide, Or.inl ⟨rfl, by decide⟩⟩
    · intro _
      exact ⟨("u", { name := "ff", ins := ["clk", "d"], outs := ["q"] }), by rw [hbb]; exact List.mem_singleton.2 rfl,
        "q", by decide, Or.inr ⟨rfl, by decide⟩⟩
  · intro q hq
    rw [hbb, List.mem_singleton] at hq
    subst hq
    refine ⟨by decide, by decide, pn _ (by decide), pn _ (by decide), by decide, ?_, by decide, by decide, by decide⟩
    have Q : ∀ g ∈ ["clk", "d"] ++ ["q"], (g ≠ "" ∧ Circuit.isDigit0 g = false ∧ ¬ g.toList.contains '.' ∧
        g.toList.head? ≠ some '\\' ∧ g ≠ "tie_0" ∧ g ≠ "tie_1" ∧ g ≠ "tie_x") := by decide
    exact fun g hg => pn g (Q g hg)
/-- and a blackbox-free one meeting the hypotheses of `roundtrip_behavioral` -/
def exB : Circuit :=
  { name := "top",
    nodes := [("a", { ty := some "input", out := some false }), ("b", { ty := some "input", out := some false }),
              ("k", { ty := some "1", out := some false }),
              ("g", { ty := some "nand", out := some false }), ("h", { ty := some "xnor", out := some true }),
              ("o", { ty := some "or", out := some true })],
    edges := [("a", "g"), ("b", "g"), ("g", "h"), ("k", "h"), ("a", "h"), ("h", "o")] }
example : Writable exB ∧ exB.bbs = [] ∧ (∀ p ∈ exB.nodes, p.2.ty ≠ some "x") ∧ (∀ p ∈ exB.nodes, ¬ C02.SyntheticLike p.1) := by
  refine ⟨⟨Limit.lintClean_of_checks exB ⟨by decide, by decide, by decide⟩ (by decide) (by decide) (by decide),
    by decide, ?_, ?_, ?_, by decide, ?_, by decide⟩, rfl, by decide, ?_⟩
  · have pn : ∀ n : Name, (n ≠ "" ∧ Circuit.isDigit0 n = false ∧ ¬ n.toList.contains '.' ∧ n.toList.head? ≠ some '\\' ∧
        n ≠ "tie_0" ∧ n ≠ "tie_1" ∧ n ≠ "tie_x") → PlainName n := by
      intro n h
      refine ⟨h.1, h.2.1, h.2.2.1, ?_, h.2.2.2.2⟩
      rw [VR.startsWith_bs_iff]
      rintro ⟨l, hl⟩
      exact h.2.2.2.1 (by rw [hl]; rfl)
    have Q : ∀ p ∈ exB.nodes, (p.1 ≠ "" ∧ Circuit.isDigit0 p.1 = false ∧ ¬ p.1.toList.contains '.' ∧
        p.1.toList.head? ≠ some '\\' ∧ p.1 ≠ "tie_0" ∧ p.1 ≠ "tie_1" ∧ p.1 ≠ "tie_x") := by decide
    exact fun p hp _ => pn p.1 (Q p hp)
  · intro p hp
    simp only [exB, List.mem_cons, List.not_mem_nil, or_false] at hp
    rcases hp with rfl | rfl | rfl | rfl | rfl | rfl <;>
      (intro h; rcases h with h | h <;> exact absurd h (by decide))
  · intro q hq
    cases hq
  · intro q hq
    cases hq
  · intro p hp
    simp only [exB, List.mem_cons, List.not_mem_nil, or_false] at hp
    rcases hp with rfl | rfl | rfl | rfl | rfl | rfl <;>
      exact C02.Glue.not_syntheticLike (by decide) (by decide) (by decide) (by decide)
example : ((toWModule exB true id).toOption.map (fun wm => render wm)) =
    some "module top (a, b, h, o);\n  input a;\n  input b;\n\n  output h;\n  output o;\n\n  wire k;\n  wire g;\n  wire h;\n  wire o;\n\n  assign k = 1'b1;\n  assign g = ~(a & b);\n  assign h = ~(g ^ k ^ a);\n  assign o = h;\nendmodule\n" := by
  decide +kernel

example : NamesOK exW := namesOK_of_check (by decide +kernel)
example : (exW.inputs ≠ [] ∨ exW.outputs ≠ []) ∧ ∀ q ∈ exW.bbs, q.2.ins ++ q.2.outs ≠ [] := by decide
example : ((write exW false id).toOption.bind (fun t => (parseNetlist t (bbDefs exW) id).toOption)).map
    (fun c' => decide (c'.edges.length = exW.edges.length ∧ c'.nodes.length = exW.nodes.length)) = some true := by
  decide +kernel

end CG.C03
