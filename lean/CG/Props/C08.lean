/-
  C08 — model counting and signal probability are exact.
  Property theorems only; helper lemmas live in CG/Proofs/ModelCount.lean.
-/
import CG.Sat
import CG.Spec
import CG.Props.C01
import CG.Proofs.ModelCount
namespace CG.C08
open CG.C01 (Clean)

/-- `bs` is a valuation of the startpoints `sp` that extends to a consistent valuation agreeing with the assumptions -/
def Extendable (c : Circuit) (as : List (Name × Bool)) (sp : List Name) (bs : List Bool) : Prop :=
  ∃ v, Consistent c v ∧ (∀ p ∈ as, v p.1 = p.2) ∧ sp.map v = bs

/-- **C08 (model_count).** with any sound and complete solver the blocking-clause loop terminates and returns the
    number of valuations of the circuit's startpoints (inputs and blackbox outputs) that extend to a consistent
    valuation satisfying the assumptions — any assumption set (contradictory, on internal nodes), any order, also
    with zero startpoints -/
theorem model_count_exact (s : Solver) (hs : SolverSpec s) (c : Circuit) (ord : Ord) (hord : OrdOK ord)
    (hc : Clean c) (as : List (Name × Bool)) (hin : ∀ p ∈ as, c.has p.1 = true) :
    ∃ L : List (List Bool), L.Nodup ∧ (∀ bs, bs ∈ L ↔ Extendable c as (ord c.startpointsAll) bs) ∧
      modelCount s c ord as = .ok L.length := by
  exact MC.modelCount_spec s hs c ord hord hc as hin

/-- the count does not depend on the set-iteration order -/
theorem model_count_order_irrelevant (s : Solver) (hs : SolverSpec s) (c : Circuit) (o1 o2 : Ord)
    (h1 : OrdOK o1) (h2 : OrdOK o2) (hc : Clean c) (as : List (Name × Bool)) (hin : ∀ p ∈ as, c.has p.1 = true) :
    modelCount s c o1 as = modelCount s c o2 as := by
  exact MC.modelCount_order s hs c o1 o2 h1 h2 hc as hin

/-- **C08 (DIMACS instance).** the formula handed to the external counter (cnf + assumption units), projected onto
    the declared sampling set (the startpoints), has exactly the extendable startpoint valuations as models -/
theorem dimacs_projection (c : Circuit) (ord : Ord) (hord : OrdOK ord) (hc : Clean c) (f : CNF)
    (hf : cnf c ord = .ok f) (as : List (Name × Bool)) (sp : List Name) (bs : List Bool) :
    (∃ σ, CNF.sat σ (f ++ assumptionClauses as) = true ∧ sp.map (fun n => σ (.node n)) = bs) ↔
      Extendable c as sp bs := by
  exact MC.base_projection c ord hord hc f hf as sp bs

/-- **C08 (signal probability).** the pair (count, k) behind `signal_probability` (= count / 2^k): count is the number
    of valuations of the cone's startpoints that extend to a consistent valuation with `n` = 1, k their number -/
theorem signal_probability_exact (s : Solver) (hs : SolverSpec s) (sub : Circuit) (n : Name) (ord : Ord)
    (hord : OrdOK ord) (hc : Clean sub) (hn : sub.has n = true) :
    ∃ L : List (List Bool), L.Nodup ∧ (∀ bs, bs ∈ L ↔ Extendable sub [(n, true)] (ord sub.startpointsAll) bs) ∧
      signalProbability s sub n ord = .ok (L.length, sub.startpointsAll.length) := by
  exact MC.signalProbability_spec s hs sub n ord hord hc hn

/-! non-vacuity: a trivially sound and complete solver exists for formulas over a known finite variable set is not
    needed here; the hypotheses are instantiated in C01 (`Clean ex`).  Concrete run of the loop with a table solver: -/
def tinySolver : Solver := fun f =>
  -- brute force over the two variables a, o of `tiny`
  let cands : List (Var → Bool) := [false, true].flatMap (fun a => [false, true].map (fun o =>
    fun v => if v = .node "a" then a else if v = .node "o" then o else false))
  cands.find? (fun σ => CNF.sat σ f)
def tiny : Circuit :=
  { nodes := [("a", { ty := some "input", out := some false }), ("o", { ty := some "not", out := some true })],
    edges := [("a", "o")] }
example : (modelCount tinySolver tiny id []).toOption = some 2 := by decide
example : (modelCount tinySolver tiny id [("o", true)]).toOption = some 1 := by decide
example : (modelCount tinySolver tiny id [("o", true), ("a", true)]).toOption = some 0 := by decide

end CG.C08
