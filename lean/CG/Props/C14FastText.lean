/-
  C14 (continued) — CHARACTER LEVEL for the fast parser: on the text of a netlist of the restricted subset, laid out exactly as
  the library's writer lays it out (`Verilog.render`), the regular-expression passes of `fast_verilog.py` (`FastVerilog.extract`,
  the patterns extracted from the source, run by the regex engine of CG/Regex.lean) deliver exactly the statements
  (`RMod.toFParsed`, up to the raw operand list of blackbox instances, which the assembly never reads); hence the fast parser on
  that TEXT builds the circuit `fast_agrees_full` compares with the full parser.
  Property theorems only; helper lemmas in CG/Proofs/FastText*.lean.
-/
import CG.Props.C14
import CG.Props.C15
import CG.Proofs.FastTextAsm
import CG.Proofs.FastTextExtract
namespace CG.C14
open Verilog FastVerilog

/-- the writer's syntax tree of a restricted netlist with the given wire declarations -/
def RMod.toW (r : RMod) (wires : List Name) : WModule :=
  { name := r.name, inputs := r.inputs, outputs := r.outputs, wires := wires, stmts := r.stmts.map RStmt.item, parens := [] }

/-- the netlist as text, in the writer's layout -/
def RMod.text (r : RMod) (wires : List Name) : String := render (r.toW wires)

/-- words the regular expressions of the fast parser look for -/
def fastKeywords : List String := ["module", "endmodule", "input", "output", "wire", "assign"]

/-- a name the text-level theorem admits: an identifier `[a-zA-Z_][a-zA-Z\d_]*` that is not a keyword -/
def WordOK (n : Name) : Prop := C15.IdentOK n ∧ n ∉ fastKeywords

def ROp.WordsOK : ROp → Prop
  | .net n => WordOK n
  | _ => True

def RStmt.WordsOK : RStmt → Prop
  | .gate ty inst out ops => WordOK ty ∧ WordOK inst ∧ WordOK out ∧ ∀ o ∈ ops, o.WordsOK
  | .assign l r => WordOK l ∧ r.WordsOK
  | .bb ty inst pins => WordOK ty ∧ WordOK inst ∧ ∀ p ∈ pins, WordOK p.1 ∧ ∀ o, p.2 = some o → o.WordsOK

structure TextOK (r : RMod) (wires : List Name) : Prop where
  name : WordOK r.name
  inputs : ∀ i ∈ r.inputs, WordOK i
  outputs : ∀ o ∈ r.outputs, WordOK o
  wires : ∀ w ∈ wires, WordOK w
  stmts : ∀ s ∈ r.stmts, s.WordsOK
  /-- a gate instance lists its output and at least one operand; a blackbox instance at least one pin (the writer never emits `g()`) -/
  nonempty : ∀ s ∈ r.stmts, match s with | .gate _ _ _ ops => ops ≠ [] | .bb _ _ pins => pins ≠ [] | .assign .. => True

/-- two instance records the assembly cannot tell apart: same type, name and named pins, and the same raw operand list
    unless the type is not a primitive gate (then `doInst` never reads it) -/
def FInstEq : FInst → FInst → Prop
  | .inst g i nets pins, .inst g' i' nets' pins' =>
    g = g' ∧ i = i' ∧ pins = pins' ∧ (g ∈ CG.Expected.primitive_gates → nets = nets')

/-- pointwise `FInstEq` on two lists of the same length -/
def InstsEq : List FInst → List FInst → Prop
  | [], [] => True
  | a :: as, b :: bs => FInstEq a b ∧ InstsEq as bs
  | _, _ => False

/-! My first statement of the extraction theorem (hypothesis `TextOK` alone) is FALSE — refuted by `extract_text_false` below:
    `TextOK` lets a blackbox instance carry a primitive gate type (`and u (.a(x));`); the regular expressions then deliver the raw
    operand list `[".a(x)"]` while `toFParsed` has `[]`, and `FInstEq` compares raw operand lists for primitive types.  The theorem
    is `extract_text'` (extra hypothesis: no blackbox instance has a primitive type, which `Restricted` implies). -/

/-- the assembly does not distinguish `FInstEq` records -/
theorem assemble_congr (p q : FParsed) (bbs : List BBox) (ord ordIn : Ord)
    (hn : p.name = q.name) (hi : p.inputs = q.inputs) (ha : p.assigns = q.assigns) (ho : p.outputs = q.outputs)
    (hs : InstsEq p.insts q.insts) (hT : Generated.primitive_gates = some CG.Expected.primitive_gates) :
    FastVerilog.assemble p bbs ord ordIn = FastVerilog.assemble q bbs ord ordIn := by
  have conv : ∀ xs ys, InstsEq xs ys → FT.InstsEq xs ys := by
    intro xs
    induction xs with
    | nil => intro ys h; cases ys with
      | nil => trivial
      | cons _ _ => exact h
    | cons x xs ih => intro ys h; cases ys with
      | nil => exact h
      | cons y ys =>
        obtain ⟨⟨g, i, n, ps⟩, ⟨g', i', n', ps'⟩⟩ := (x, y)
        exact ⟨h.1, ih ys h.2⟩
  exact FT.assemble_congr p q bbs ord ordIn hn hi ha ho (conv _ _ hs) hT

/-- the corollary, from any extraction result of the stated shape -/
theorem fast_text_agrees_full_of_extract (r : RMod) (wires : List Name) (bbs : List BBox) (ord ordIn ord' : Ord)
    (hord : OrdOK ord) (hordIn : OrdOK ordIn) (hord' : OrdOK ord') (h : Restricted r bbs)
    (hx : ∃ p, FastVerilog.extract (r.text wires) = .ok p ∧ p.name = r.toFParsed.name ∧ p.inputs = r.toFParsed.inputs ∧
      p.assigns = r.toFParsed.assigns ∧ p.outputs = r.toFParsed.outputs ∧ InstsEq p.insts r.toFParsed.insts) :
    ∃ cf cv, FastVerilog.parse (r.text wires) bbs ord ordIn = .ok cf ∧ Verilog.transform r.toModule bbs ord' = .ok cv ∧
      SameCircuit (renameTies cf) cv := by
  obtain ⟨p, hp, h1, h2, h3, h4, h5⟩ := hx
  obtain ⟨cf, cv, hf, hv, hs⟩ := fast_agrees_full r bbs ord ordIn ord' hord hordIn hord' h
  refine ⟨cf, cv, ?_, hv, hs⟩
  unfold FastVerilog.parse
  rw [hp]
  show FastVerilog.assemble p bbs ord ordIn = _
  rw [assemble_congr p r.toFParsed bbs ord ordIn h1 h2 h3 h4 h5 tables_primitive]
  exact hf

/-! ### from `TextOK` to the character-level hypotheses of the helper files -/

theorem word_of_wordOK {n : Name} (h : WordOK n) : FT.Word n := by
  obtain ⟨h1, h2⟩ := h
  have key : ∀ (k : List Char) (kw : String), String.ofList k = kw → kw ∈ fastKeywords → n.toList ≠ k := by
    intro k kw e hm hn
    apply h2
    have : n = kw := by rw [← String.ofList_toList (s := n), hn, e]
    rw [this]; exact hm
  exact ⟨BenchText.identL_of n h1, key _ "module" (by decide) (by decide), key _ "endmodule" (by decide) (by decide),
    key _ "input" (by decide) (by decide), key _ "output" (by decide) (by decide), key _ "wire" (by decide) (by decide),
    key _ "assign" (by decide) (by decide)⟩

theorem op_of_wordsOK {o : ROp} (h : o.WordsOK) : FT.OpOK o := by
  cases o with
  | net n => exact word_of_wordOK h
  | c0 => trivial
  | c1 => trivial

theorem tok_of_textOK {r : RMod} {wires : List Name} (h : TextOK r wires) : FT.TOK r wires where
  name := word_of_wordOK h.name
  inputs := fun i hi => word_of_wordOK (h.inputs i hi)
  outputs := fun i hi => word_of_wordOK (h.outputs i hi)
  wires := fun i hi => word_of_wordOK (h.wires i hi)
  stmts := by
    intro s hs
    have h1 := h.stmts s hs
    have h2 := h.nonempty s hs
    cases s with
    | gate ty inst out ops =>
      exact ⟨word_of_wordOK h1.1, word_of_wordOK h1.2.1, word_of_wordOK h1.2.2.1, fun o ho => op_of_wordsOK (h1.2.2.2 o ho)⟩
    | assign l r => exact ⟨word_of_wordOK h1.1, op_of_wordsOK h1.2⟩
    | bb ty inst pins =>
      exact ⟨word_of_wordOK h1.1, word_of_wordOK h1.2.1, h2,
        fun p hp => ⟨word_of_wordOK (h1.2.2 p hp).1, fun o ho => op_of_wordsOK ((h1.2.2 p hp).2 o ho)⟩⟩

/-- what the regular expressions deliver is `toFParsed` up to the raw operand lists of blackbox instances -/
theorem instsEq_finstX : ∀ (stmts : List RStmt),
    (∀ s ∈ stmts, match s with | .bb ty _ _ => ty ∉ CG.Expected.primitive_gates | _ => True) →
    InstsEq (stmts.filterMap FT.finstX) (stmts.filterMap RStmt.finst)
  | [], _ => trivial
  | s :: stmts, h => by
    have ih := instsEq_finstX stmts (fun x hx => h x (by simp [hx]))
    have hs := h s (by simp)
    cases s with
    | gate ty inst out ops =>
      show InstsEq (_ :: _) (_ :: _)
      exact ⟨⟨rfl, rfl, rfl, fun _ => rfl⟩, ih⟩
    | assign l r => exact ih
    | bb ty inst pins =>
      show InstsEq (_ :: _) (_ :: _)
      exact ⟨⟨rfl, rfl, rfl, fun hp => absurd hp hs⟩, ih⟩

/-- **C14 (character level, extraction), corrected.** the regular-expression passes over the writer-layout text deliver the
    statements, provided no blackbox instance carries a primitive gate type -/
theorem extract_text' (r : RMod) (wires : List Name) (h : TextOK r wires)
    (hbb : ∀ s ∈ r.stmts, match s with | .bb ty _ _ => ty ∉ CG.Expected.primitive_gates | _ => True) :
    ∃ p, FastVerilog.extract (r.text wires) = .ok p ∧ p.name = r.toFParsed.name ∧ p.inputs = r.toFParsed.inputs ∧
      p.assigns = r.toFParsed.assigns ∧ p.outputs = r.toFParsed.outputs ∧ InstsEq p.insts r.toFParsed.insts :=
  ⟨_, FT.extract_ok r wires (tok_of_textOK h), rfl, rfl, rfl, rfl, instsEq_finstX r.stmts hbb⟩

/-- **C14 (character level).** for every netlist of the restricted subset whose names are plain words, the fast parser run on
    the TEXT and the full parser's graph assembly on the statements return the same circuit up to the names of the constant nodes -/
theorem fast_text_agrees_full (r : RMod) (wires : List Name) (bbs : List BBox) (ord ordIn ord' : Ord) (hord : OrdOK ord)
    (hordIn : OrdOK ordIn) (hord' : OrdOK ord') (h : Restricted r bbs) (ht : TextOK r wires) :
    ∃ cf cv, FastVerilog.parse (r.text wires) bbs ord ordIn = .ok cf ∧ Verilog.transform r.toModule bbs ord' = .ok cv ∧
      SameCircuit (renameTies cf) cv := by
  refine fast_text_agrees_full_of_extract r wires bbs ord ordIn ord' hord hordIn hord' h (extract_text' r wires ht ?_)
  intro s hs
  have := h.stmts s hs
  cases s with
  | gate ty inst out ops => trivial
  | assign l r => trivial
  | bb ty inst pins => exact this.1


/-! ### the first statement of `extract_text` is false -/

theorem wordOK_dec (n : Name)
    (h1 : (match n.toList with | [] => false | ch :: rest => C15.identStart ch && rest.all C15.identChar) = true)
    (h2 : fastKeywords.contains n = false) : WordOK n := by
  refine ⟨?_, by simpa using h2⟩
  unfold C15.IdentOK
  cases hn : n.toList with
  | nil => rw [hn] at h1; cases h1
  | cons ch rest =>
    rw [hn] at h1
    simp only [Bool.and_eq_true, List.all_eq_true] at h1
    exact h1

/-- a blackbox instance with a primitive gate type -/
def cexMod : RMod := { name := "m", inputs := [], outputs := [], stmts := [.bb "and" "u" [("a", some (.net "x"))]] }

theorem cex_textOK : TextOK cexMod [] where
  name := wordOK_dec _ (by decide) (by decide)
  inputs := by intro i hi; cases hi
  outputs := by intro i hi; cases hi
  wires := by intro i hi; cases hi
  stmts := by
    intro s hs
    simp only [cexMod, List.mem_singleton] at hs
    subst hs
    refine ⟨wordOK_dec _ (by decide) (by decide), wordOK_dec _ (by decide) (by decide), ?_⟩
    intro p hp
    simp only [List.mem_singleton] at hp
    subst hp
    refine ⟨wordOK_dec _ (by decide) (by decide), ?_⟩
    intro o ho
    cases ho
    exact wordOK_dec _ (by decide) (by decide)
  nonempty := by
    intro s hs
    simp only [cexMod, List.mem_singleton] at hs
    subst hs
    simp

/-- **`extract_text` does not hold for every `TextOK` netlist**: on `cexMod` the extraction succeeds but the raw operand list
    of the instance `and u (.a(x));` is not empty -/
theorem extract_text_false :
    ¬ ∃ p, FastVerilog.extract (cexMod.text []) = .ok p ∧ p.name = cexMod.toFParsed.name ∧
      p.inputs = cexMod.toFParsed.inputs ∧ p.assigns = cexMod.toFParsed.assigns ∧ p.outputs = cexMod.toFParsed.outputs ∧
      InstsEq p.insts cexMod.toFParsed.insts := by
  rintro ⟨p, hp, -, -, -, -, hi⟩
  have := FT.extract_ok cexMod [] (tok_of_textOK cex_textOK)
  have e : cexMod.text [] = Verilog.render (FT.toW cexMod []) := rfl
  rw [e, this] at hp
  injection hp with hp
  subst hp
  have h1 : FInstEq _ _ := hi.1
  exact FT.split_ne_nil _ (h1.2.2.2 (by decide))

/-! ### non-vacuity -/

theorem ex_textOK : TextOK C14.ex ["w"] := by
  have hw : ∀ n ∈ ["top", "a", "b", "o", "q", "w", "nand", "g_1", "ff", "u", "clk", "d"], WordOK n := by
    intro n hn
    simp only [List.mem_cons, List.not_mem_nil, or_false] at hn
    rcases hn with rfl | rfl | rfl | rfl | rfl | rfl | rfl | rfl | rfl | rfl | rfl | rfl <;>
      exact wordOK_dec _ (by decide) (by decide)
  refine ⟨hw _ (by decide), ?_, ?_, ?_, ?_, ?_⟩
  · intro i hi; exact hw i (by revert hi; simp only [C14.ex]; decide +revert)
  · intro i hi; exact hw i (by revert hi; simp only [C14.ex]; decide +revert)
  · intro i hi; exact hw i (by revert hi; decide +revert)
  · intro s hs
    simp only [C14.ex, List.mem_cons, List.not_mem_nil, or_false] at hs
    rcases hs with rfl | rfl | rfl
    · refine ⟨hw _ (by decide), hw _ (by decide), hw _ (by decide), ?_⟩
      intro o ho
      simp only [List.mem_cons, List.not_mem_nil, or_false] at ho
      rcases ho with rfl | rfl | rfl
      · exact hw _ (by decide)
      · exact hw _ (by decide)
      · trivial
    · refine ⟨hw _ (by decide), hw _ (by decide), ?_⟩
      intro p hp
      simp only [List.mem_cons, List.not_mem_nil, or_false] at hp
      rcases hp with rfl | rfl | rfl
      · exact ⟨hw _ (by decide), fun o ho => by cases ho⟩
      · exact ⟨hw _ (by decide), fun o ho => by cases ho; exact hw _ (by decide)⟩
      · exact ⟨hw _ (by decide), fun o ho => by cases ho; exact hw _ (by decide)⟩
    · exact ⟨hw _ (by decide), hw _ (by decide)⟩
  · intro s hs
    simp only [C14.ex, List.mem_cons, List.not_mem_nil, or_false] at hs
    rcases hs with rfl | rfl | rfl <;> simp

theorem ex_restricted : Restricted C14.ex [exBB] := by
  have hp : ∀ n ∈ ["g_1", "o", "w", "b", "u", "clk", "d", "q", "a"], Plain n := by
    unfold Plain; decide +kernel
  refine ⟨?_, fun i hi => hp i (by revert hi; simp only [ex]; decide +revert), by decide +kernel, by decide +kernel,
    by decide +kernel, by decide +kernel⟩
  intro s hs
  simp only [ex, List.mem_cons, List.not_mem_nil, or_false] at hs
  rcases hs with rfl | rfl | rfl
  · refine ⟨by decide, hp _ (by decide), hp _ (by decide), by simp, by decide, ?_⟩
    intro n hn
    simp only [ROp.nets, List.flatMap_cons, List.flatMap_nil, List.append_nil, List.cons_append, List.nil_append,
      List.mem_cons, List.not_mem_nil, or_false] at hn
    rcases hn with rfl | rfl <;> exact hp _ (by decide)
  · refine ⟨by decide, hp _ (by decide), exBB, by decide +kernel, ?_, by decide, by decide, by decide, ?_⟩
    · intro g hg
      exact hp g (by revert hg; simp only [exBB]; decide +revert)
    · intro p hpm o ho
      simp only [List.mem_cons, List.not_mem_nil, or_false] at hpm
      rcases hpm with rfl | rfl | rfl
      · cases ho
      · injection ho with ho; subst ho
        exact ⟨fun n hn => by simp only [ROp.nets, List.mem_singleton] at hn; subst hn; exact hp _ (by decide),
          fun hc => absurd hc (by decide)⟩
      · injection ho with ho; subst ho
        exact ⟨fun n hn => by simp only [ROp.nets, List.mem_singleton] at hn; subst hn; exact hp _ (by decide),
          fun _ => ⟨"q", rfl⟩⟩
  · exact ⟨hp _ (by decide), fun n hn => by simp only [ROp.nets, List.mem_singleton] at hn; subst hn; exact hp _ (by decide)⟩


/-- the corollary applies to the example: the fast parser on the TEXT of `C14.ex` and the full parser agree -/
example : ∃ cf cv, FastVerilog.parse (C14.ex.text ["w"]) [exBB] id id = .ok cf ∧
    Verilog.transform C14.ex.toModule [exBB] id = .ok cv ∧ SameCircuit (renameTies cf) cv :=
  fast_text_agrees_full C14.ex ["w"] [exBB] id id id (fun l => List.Perm.refl l) (fun l => List.Perm.refl l)
    (fun l => List.Perm.refl l) ex_restricted ex_textOK

end CG.C14
