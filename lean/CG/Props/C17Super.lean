/-
  C17 (second sentence) — `tx.supergates(c, construct_supercircuit=True)` (model: CG/SuperCircuit.lean): replacing each
  supergate blackbox of the returned super-circuit by its supergate reproduces a circuit equivalent to the original.
  Property theorems only; helper lemmas in CG/Proofs/SGSuper*.lean.
  My first statement (freshness hypothesis `SuperNamesFree` only) is FALSE: three machine-checked counterexamples in
  CG/Proofs/SGSuperCex.lean, restated in CG/Props/C17SuperCex.lean (`super_fill_equiv_unfixed_false`); the first of them
  replays on the real code (known finding K53).  The theorem below carries the corrected hypothesis `SuperNamesOK`.
-/
import CG.Props.C17Run
import CG.Props.C06
import CG.SuperCircuit
import CG.Proofs.SGSuperBasic
import CG.Proofs.SGSuperFinal
namespace CG.C17
open Supergates

/-- two circuits with the same primary inputs and outputs that compute the same function there: every consistent valuation
    of one is matched by a consistent valuation of the other that agrees on all inputs and outputs -/
def EquivIO (a b : Circuit) : Prop :=
  (∀ x, x ∈ a.inputs ↔ x ∈ b.inputs) ∧ (∀ x, x ∈ a.outputs ↔ x ∈ b.outputs) ∧
  (∀ v, Consistent a v → ∃ w, Consistent b w ∧ (∀ x ∈ a.inputs, w x = v x) ∧ ∀ x ∈ a.outputs, w x = v x) ∧
  (∀ w, Consistent b w → ∃ v, Consistent a v ∧ (∀ x ∈ a.inputs, v x = w x) ∧ ∀ x ∈ a.outputs, v x = w x)

/-- more than one output is rejected with ValueError, blackboxes with NotImplementedError -/
theorem runSuper_rejects (c : Circuit) (ord : Ord) :
    (1 < c.outputs.length → runSuper c ord = .error .valueError) ∧
    (c.outputs.length ≤ 1 → c.bbs ≠ [] → runSuper c ord = .error .notImplemented) :=
  SGSuper.runSuper_rejects c ord

/-- the names the construction itself introduces must be free: no node of the circuit is named like a spliced supergate node
    `sg_<h>_<n>` (fill_blackbox's prefixing) — `n`, `h` nodes of the fan-in-limited circuit -/
def SuperNamesFree (c2 : Circuit) : Prop :=
  ∀ h n, c2.has h = true → c2.has n = true → c2.has ("sg_" ++ h ++ "_" ++ n) = false

/-- the corrected freshness hypothesis (`SGSuper.NamesOK`, CG/Proofs/SGSuperDefs.lean).  `SuperNamesFree` is its field
    `preFree`; what was missing (`h`, `n`, `p` range over the nodes of the fan-in-limited circuit):
    * `nameOK`: every node name is non-empty and does not start with a digit — the construction re-adds the primary inputs,
      the output and the supergate io nets through `add`, which rejects such names (counterexample C: input `"1a"`);
    * `pinFree`: no node is named like an instance pin `sg_<h>.<p>` — `add_blackbox` adds the pins through `add`, which rejects
      existing names (counterexample B: an input literally named `"sg_o.a"`);
    * `preInj`: `(h, n) ↦ sg_<h>_<n>` is injective — otherwise the second `fill_blackbox` finds its spliced name taken
      (counterexample A: heads `a`, `a_b` with members `b_c`, `c` both give `sg_a_b_c`);
    * `pinInj`, `prePin`: the same for two pins `sg_<h>.<p>`, and for a spliced name against a pin of a not yet filled instance. -/
abbrev SuperNamesOK (c2 : Circuit) : Prop := SGSuper.NamesOK c2

theorem superNamesFree_of_ok (c2 : Circuit) (h : SuperNamesOK c2) : SuperNamesFree c2 := h.preFree

/-- **C17 (super-circuit).** for every lint-clean, blackbox-free, acyclic single-output circuit (any fan-in) whose names do not
    clash with the ones the construction introduces: the call succeeds, every instance of the returned super-circuit can be
    filled with the supergate the returned map gives for it, and the filled circuit has the inputs and outputs of the original
    and computes the same function at the output. -/
theorem super_fill_equiv_fixed (c : Circuit) (ord : Ord) (hord : OrdOK ord) (hc : LintClean c) (hnobb : c.bbs = [])
    (hac : Acyclic c) (hname : ∀ n, 2 < (c.fanin n).length → Circuit.isDigit0 n = false)
    (hbo : ∀ n, c.ty? n ≠ some "bb_output") (hout : c.outputs.length = 1)
    (c2 : Circuit) (hc2 : Tx.limitFanin c 2 ord = .ok c2) (hfree : SuperNamesOK c2)
    (hd : (algo c2 (ord c2.outputs)).headsDistinct = true) :
    ∃ s m full, runSuper c ord = .ok (s, m) ∧ fillAll s m ord = .ok full ∧ EquivIO c full :=
  SGSuper.super_fill_main c ord hord hc hnobb hac hname hbo hout c2 hc2 hfree hd

end CG.C17
