/-
  C17 — supergate decomposition covers the circuit with independent-input blocks.
  The decomposition algorithm itself (dominator trees on a bidirected copy of each output cone, minimal cover) is NOT
  modelled: the claims about its result are decided per instance by the checker `Supergates.supergatesOK`, which the
  driver evaluates on the implementation's actual output; this file proves that the checker is sound and complete
  w.r.t. the graph-theoretic statement, for every circuit and every list.  (C17_partial: no ∀-circuits theorem about
  the algorithm.)
-/
import CG.Supergates
import CG.Spec
import CG.Props.C12
import CG.Proofs.SG
namespace CG.C17
open Supergates CG.C12

/-- `a` is `b` or a proper ancestor of `b` -/
def ReachR (c : Circuit) (a b : Name) : Prop := a = b ∨ Reach1 c a b

/-- the statement of C17 about a list of supergates of the fan-in-limited circuit `c2` -/
structure Spec (c2 : Circuit) (sgs : List Circuit) : Prop where
  /-- single-output sub-circuits … -/
  single : ∀ sg ∈ sgs, sg.outputs.length = 1
  /-- … whose internal wiring is exactly that of the circuit -/
  induced : ∀ sg ∈ sgs, ∀ n ∈ internal sg, c2.has n = true ∧ sg.ty? n = c2.ty? n ∧
      (∀ x, x ∈ sg.fanin n ↔ x ∈ c2.fanin n)
  inputsIn : ∀ sg ∈ sgs, ∀ i ∈ sg.inputs, c2.has i = true
  /-- no reconvergence enters a supergate through two different inputs -/
  independent : ∀ sg ∈ sgs, ∀ (i j : Nat) (a b : Name), sg.inputs[i]? = some a → sg.inputs[j]? = some b → i ≠ j →
      ∀ x, ¬ (ReachR c2 x a ∧ ReachR c2 x b)
  /-- listed in topological order -/
  ordered : ∀ (k : Nat) (sg : Circuit), sgs[k]? = some sg → ∀ i ∈ sg.inputs, c2.ty? i = some "input" ∨
      ∃ (k2 : Nat) (sg2 : Circuit), k2 < k ∧ sgs[k2]? = some sg2 ∧ i ∈ internal sg2
  /-- together they contain every gate in the cone of the outputs -/
  cover : ∀ o ∈ c2.outputs, ∀ n, ReachR c2 n o → c2.ty? n ≠ some "input" → ∃ sg ∈ sgs, n ∈ internal sg

/-- **C17 (checker soundness).** whenever the checker accepts, the statement holds -/
theorem supergatesOK_sound (c2 : Circuit) (sgs : List Circuit) (hwf : WF c2) (h : supergatesOK c2 sgs = true) :
    Spec c2 sgs := by
  unfold supergatesOK at h
  rw [Bool.and_eq_true, Bool.and_eq_true, List.all_eq_true] at h
  obtain ⟨⟨h1, h2⟩, h3⟩ := h
  have hsg := fun sg hsg => (SG.sgOK_iff c2 hwf sg).mp (h1 sg hsg)
  refine ⟨fun sg m => (hsg sg m).1, fun sg m => (hsg sg m).2.1, fun sg m => (hsg sg m).2.2.1,
    fun sg m => (hsg sg m).2.2.2, ?_, (SG.coverOK_iff c2 hwf sgs).mp h3⟩
  intro k sg hk i hi
  rcases (SG.orderOK_iff c2 sgs []).mp h2 k sg hk i hi with h | h | h
  · exact Or.inl h
  · exact absurd h List.not_mem_nil
  · exact Or.inr h

/-- … and it never rejects a list for which the statement holds (so a rejection is a genuine violation) -/
theorem supergatesOK_complete (c2 : Circuit) (sgs : List Circuit) (hwf : WF c2) (hs : Spec c2 sgs) :
    supergatesOK c2 sgs = true := by
  unfold supergatesOK
  rw [Bool.and_eq_true, Bool.and_eq_true, List.all_eq_true]
  refine ⟨⟨?_, ?_⟩, (SG.coverOK_iff c2 hwf sgs).mpr hs.cover⟩
  · intro sg m
    exact (SG.sgOK_iff c2 hwf sg).mpr ⟨hs.single sg m, hs.induced sg m, hs.inputsIn sg m, hs.independent sg m⟩
  · rw [SG.orderOK_iff c2 sgs []]
    intro k sg hk i hi
    rcases hs.ordered k sg hk i hi with h | h
    · exact Or.inl h
    · exact Or.inr (Or.inr h)

/-! non-vacuity: a reconvergent cone is one supergate; two independent gates feeding an and are three -/
def cR : Circuit :=
  { nodes := [("a", { ty := some "input", out := some false }), ("b", { ty := some "input", out := some false }),
              ("g", { ty := some "and", out := some false }), ("h", { ty := some "or", out := some false }),
              ("o", { ty := some "xor", out := some true })],
    edges := [("a", "g"), ("b", "g"), ("a", "h"), ("b", "h"), ("g", "o"), ("h", "o")] }
def sgR : Circuit := { cR with name := "circuit" }
example : supergatesOK cR [sgR] = true := by decide
/-- splitting the reconvergent cone at g/h is rejected: a and b reach o through both inputs -/
def sgBad : Circuit :=
  { nodes := [("g", { ty := some "input", out := some false }), ("h", { ty := some "input", out := some false }),
              ("o", { ty := some "xor", out := some true })], edges := [("g", "o"), ("h", "o")] }
example : supergatesOK cR [sgBad] = false := by decide

end CG.C17
