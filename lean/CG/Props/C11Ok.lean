/-
  C11 (continued) — total correctness of the two sensitivity transforms: when the calls succeed.  Property theorems only;
  helper lemmas in CG/Proofs/SensOk*.lean.
-/
import CG.Props.C11
import CG.Proofs.SensOkA
import CG.Proofs.SensOkF
import CG.Proofs.SensOkCex
set_option linter.unusedVariables false
namespace CG.C11

/-- **C11 (sensitization_transform succeeds).** default endpoints: for a good acyclic circuit with at least one input and one
    output, a node `n` of it, addable names and no startpoint named like a synthesised node, the call returns normally -/
theorem sensitization_transform_ok (c : Circuit) (n : Name) (ord : Ord) (ordE : List (Name × Name) → List (Name × Name))
    (hord : OrdOK ord) (hordE : ∀ l, (ordE l).Perm l) (hc : Good c) (hn : c.has n = true)
    (hout : c.outputs ≠ []) (hin : c.inputs ≠ [])
    (hnames : ∀ p ∈ c.nodes, p.1 ≠ "" ∧ Circuit.isDigit0 p.1 = false)
    (hnbb : ∀ p ∈ c.nodes, p.2.ty ≠ some "bb_input" ∧ p.2.ty ≠ some "bb_output")
    (hclash : ∀ s ∈ c.inputs, s ≠ "sat" ∧ (∀ x, s ≠ "c0_" ++ x) ∧ (∀ x, s ≠ "c1_" ++ x) ∧ (∀ x, s ≠ "dif_" ++ x)) :
    ∃ m, Tx.sensitizationTransform c n [] ord ordE = .ok m :=
  SensOk.sensitization_default_ok hord hc.clean hc.nobb hn hout hin hnames hnbb hclash

/-! The first formulation of `sensitivity_transform_ok` (hypotheses as I had guessed them) is FALSE and has been removed from this file; its
    refutation and the corrected statements follow. -/

/-! `sensitivity_transform_ok` as stated above (no name-clash hypothesis) is FALSE: see `CG/Proofs/SensOkCex.lean`
    (`SensOkCex.sensitivity_transform_ok_false`, six machine-checked counterexamples `SensOkCex.refutes_*`).  The transform
    adds every startpoint `s` of the cone as a fresh input *under its own name* next to the synthesised nodes, so `s` must
    not be one of them, and the prefixes `inv_<s>_` of two different startpoints must not produce the same node name. -/

/-- **C11 (sensitivity_transform succeeds), corrected.**
    ADDED hypotheses (the statement without them is refuted by `SensOkCex.sensitivity_transform_ok_false`), about the
    startpoints `sp` of the cone `n :: tfi` only:
    `hclash` — no startpoint is named like a synthesised node: `orig_<x>` (`x` in the cone), `inv_<s'>_<x>` (`s'` a startpoint,
      `x` in the cone), `dif_out_<s'>`, a node `pc_…` of the population counter, an output buffer `sen_out_<o>`;
    `hsep` — the copies of two different startpoints are disjoint: `s_x = s'_x'` (`x`, `x'` in the cone) only when `s = s'`
      (fails e.g. for startpoints `a`, `a_b` and cone nodes `b_g`, `g`). -/
theorem sensitivity_transform_ok' (c : Circuit) (n : Name) (ord : Ord) (hord : OrdOK ord) (hc : Good c) (hacyc : Acyclic c)
    (hn : c.has n = true)
    (sp : List Name) (hsp : Query.startpoints c [n] = .ok sp) (hne : sp ≠ [])
    (tfi : List Name) (htfi : Query.transitiveFanin c [n] = .ok tfi)
    (hnames : ∀ x ∈ n :: tfi, x ≠ "" ∧ Circuit.isDigit0 x = false)
    (hnbb : ∀ x ∈ n :: tfi, c.ty? x ≠ some "bb_input" ∧ c.ty? x ≠ some "bb_output")
    (hclash : ∀ s ∈ sp,
      (∀ x ∈ n :: tfi, s ≠ "orig_" ++ x) ∧
      (∀ s' ∈ sp, ∀ x ∈ n :: tfi, s ≠ "inv_" ++ s' ++ "_" ++ x) ∧
      (∀ s' ∈ sp, s ≠ "dif_out_" ++ s') ∧
      (∀ x, s ≠ "pc_" ++ x) ∧ (∀ o : Nat, s ≠ "sen_out_" ++ toString o))
    (hsep : ∀ s ∈ sp, ∀ s' ∈ sp, ∀ x ∈ n :: tfi, ∀ x' ∈ n :: tfi, s ++ "_" ++ x = s' ++ "_" ++ x' → s = s') :
    ∃ sen, Tx.sensitivityTransform c n ord = .ok sen :=
  SensOk.sensitivity_ok hord hc.clean hc.nobb hn hsp hne htfi
    (fun x hx => SensOk.nameOK_of (hnames x ((Sens.mem_sp_iff hc.clean hn htfi hsp x).1 hx).1)) hnbb hclash hsep

/-- non-vacuity: the added hypotheses hold for the example of `CG/Props/C11.lean` (`n = "g"`, cone `g, a, b`, startpoints `a, b`) -/
example : (∀ s ∈ ["a", "b"],
      (∀ x ∈ ["g", "a", "b"], s ≠ "orig_" ++ x) ∧
      (∀ s' ∈ ["a", "b"], ∀ x ∈ ["g", "a", "b"], s ≠ "inv_" ++ s' ++ "_" ++ x) ∧
      (∀ s' ∈ ["a", "b"], s ≠ "dif_out_" ++ s') ∧
      (∀ x, s ≠ "pc_" ++ x) ∧ (∀ o : Nat, s ≠ "sen_out_" ++ toString o)) ∧
    (∀ s ∈ ["a", "b"], ∀ s' ∈ ["a", "b"], ∀ x ∈ ["g", "a", "b"], ∀ x' ∈ ["g", "a", "b"],
      s ++ "_" ++ x = s' ++ "_" ++ x' → s = s') ∧
    (Tx.sensitivityTransform ex "g" id).toOption.map (fun m => m.nodes.length) = some 37 := by
  refine ⟨?_, by decide, by decide +kernel⟩
  intro s hs
  have hl : s.length = 1 := by
    simp only [List.mem_cons, List.not_mem_nil, or_false] at hs
    rcases hs with rfl | rfl <;> decide
  have key : ∀ (p x : String), 2 ≤ p.length → s ≠ p ++ x := by
    intro p x hp e
    rw [e, String.length_append] at hl
    omega
  refine ⟨fun x _ => key _ x (by decide), fun s' _ x _ => ?_, fun s' _ => key _ s' (by decide),
    fun x => key _ x (by decide), fun o => key _ _ (by decide)⟩
  rw [String.append_assoc, String.append_assoc]
  exact key _ _ (by decide)

end CG.C11
