/-
  C10 — the ternary encoding computes Kleene three-valued simulation.
  Property theorems only; helper lemmas live in CG/Proofs/Ternary*.lean.
-/
import CG.Tx
import CG.Spec
import CG.Kleene
import CG.Proofs.Ternary
-- `hc`/`htopo` are not needed by some proofs (the statements hold for every evaluation order); statements kept as given
set_option linter.unusedVariables false
namespace CG.C10

/-- static tie: the type→branch table of `ternary` extracted from tx.py is the one these proofs are about -/
theorem tables_ternary : Generated.ternary_lists = some Expected.ternary_lists := by decide
theorem tables_supported : Generated.supported_types = some Expected.supported_types := by decide
theorem tables_add : Generated.add_lists = some Expected.add_lists := by decide
theorem tables_connect : Generated.connect_lists = some Expected.connect_lists := by decide

/-- the circuits the statement ranges over: lint-clean, blackbox-free, no `x` constants, acyclic, and node
    names that `add` accepts (non-empty, not digit-leading) -/
structure Good (c : Circuit) : Prop where
  clean : LintClean c
  nobb : c.bbs = []
  types : ∀ p ∈ c.nodes, ∀ t, p.2.ty = some t → t ∈ multiTypes ∨ t = "buf" ∨ t = "not" ∨ t = "0" ∨ t = "1" ∨ t = "input"
  names : ∀ p ∈ c.nodes, p.1 ≠ "" ∧ Circuit.isDigit0 p.1 = false
  acyclic : Acyclic c

theorem Good.toC {c : Circuit} (hc : Good c) : Ternary.GoodC c := ⟨hc.clean, hc.types, hc.names, hc.acyclic⟩

/-- `order` is a topological order of all nodes of `c` -/
def Topo (c : Circuit) (order : List Name) : Prop :=
  order.Perm c.nodeNames ∧
  ∀ i j (hi : i < order.length) (hj : j < order.length), (order[i], order[j]) ∈ c.edges → i < j

/-- the ternary input pattern a valuation of the encoded circuit denotes: X when the input's companion is 1 -/
def patOf (v : Val) (mp : Name → Name) : Name → T3 :=
  fun n => if v (mp n) then T3.x else T3.ofBool (v n)

/-- the encoder succeeds on every good circuit, for every set-iteration order -/
theorem ternary_ok (c : Circuit) (ord : Ord) (hord : OrdOK ord) (hc : Good c) :
    ∃ t mapping, Tx.ternary c ord = .ok (t, mapping) := by
  obtain ⟨t, e, _⟩ := Ternary.ternary_run hc.toC hc.nobb hord
  exact ⟨t, _, e⟩

/-- the encoded circuit contains `c` unchanged, and the mapping is an injection from the nodes of `c` to fresh names -/
theorem ternary_contains_c (c : Circuit) (ord : Ord) (hord : OrdOK ord) (hc : Good c) (t : Circuit)
    (mapping : List (Name × Name)) (h : Tx.ternary c ord = .ok (t, mapping)) :
    (∀ n, c.has n = true → t.attr? n = c.attr? n ∧ (t.fanin n).Perm (c.fanin n)) ∧
    mapping.map (·.1) = c.nodeNames ∧ (mapping.map (·.2)).Nodup ∧
    (∀ p ∈ mapping, c.has p.2 = false ∧ t.has p.2 = true) := by
  obtain ⟨rfl, inv⟩ := Ternary.ternary_result hc.toC hc.nobb hord h
  refine ⟨fun n hn => Ternary.final_contains hc.toC inv hn, Ternary.mappingOf_fst c,
    Ternary.mappingOf_snd_nodup hc.toC, ?_⟩
  intro p hp
  obtain ⟨h1, h2⟩ := Ternary.mappingOf_mem hp
  rw [h2]
  exact ⟨(Ternary.mapOK_mpOf c).fresh h1, Ternary.final_has_comp inv h1⟩

/-- **C10.** for every valuation `v` consistent with the encoded circuit, with `K` the gate-by-gate Kleene
    evaluation of `c` under the ternary input pattern that `v` denotes: `mapping[n]` is 1 exactly when `K n = X`,
    and otherwise `n` carries the Kleene (binary) value — for every node, every arity, every order -/
theorem ternary_kleene (c : Circuit) (ord : Ord) (hord : OrdOK ord) (hc : Good c) (t : Circuit)
    (mapping : List (Name × Name)) (h : Tx.ternary c ord = .ok (t, mapping))
    (order : List Name) (htopo : Topo c order) (v : Val) (hv : Consistent t v) :
    let mp := fun n => (mapping.lookup n).getD ""
    let K := eval3 c order (patOf v mp)
    ∀ n, c.has n = true →
      ((v (mp n) = true ↔ K n = T3.x) ∧ (v (mp n) = false → T3.ofBool (v n) = K n)) := by
  obtain ⟨rfl, inv⟩ := Ternary.ternary_result hc.toC hc.nobb hord h
  intro mp K n _
  have hK : K n = Ternary.toT3 (v n) (v (mp n)) := Ternary.kleene_eq hc.toC inv hv order n
  rw [hK]
  unfold Ternary.toT3
  cases hx : v (mp n) with
  | true => simp
  | false => cases v n <;> simp [T3.ofBool]

/-- Kleene evaluation is sound for every completion: a definite Kleene value is the value under every
    replacement of the X inputs by 0 or 1 -/
theorem kleene_definite (c : Circuit) (hc : Good c) (order : List Name) (htopo : Topo c order)
    (pat : Name → T3) (b : Val) (hb : Completes b pat) :
    ∀ n, c.has n = true → eval3 c order pat n ≠ T3.x → eval3 c order pat n = T3.ofBool (eval c order b n) := by
  intro n _ hx
  rcases Ternary.eval_ref c order pat b hb n with h | h
  · exact absurd h hx
  · exact h

/-- hence whenever `mapping[n]` is 0, `n`'s value equals the value it has in `c` under every completion -/
theorem ternary_definite (c : Circuit) (ord : Ord) (hord : OrdOK ord) (hc : Good c) (t : Circuit)
    (mapping : List (Name × Name)) (h : Tx.ternary c ord = .ok (t, mapping))
    (order : List Name) (htopo : Topo c order) (v : Val) (hv : Consistent t v) (b : Val)
    (hb : Completes b (patOf v (fun n => (mapping.lookup n).getD ""))) :
    ∀ n, c.has n = true → v ((mapping.lookup n).getD "") = false → v n = eval c order b n := by
  intro n hn hx
  have hk := (ternary_kleene c ord hord hc t mapping h order htopo v hv n hn).2 hx
  have hd := kleene_definite c hc order htopo _ b hb n hn (by rw [← hk]; cases v n <;> simp [T3.ofBool])
  rw [← hk] at hd
  cases h1 : v n <;> cases h2 : eval c order b n <;> simp [h1, h2, T3.ofBool] at hd ⊢

/-- blackboxes are rejected with ValueError -/
theorem ternary_rejects_blackboxes (c : Circuit) (ord : Ord) (h : c.bbs ≠ []) :
    Tx.ternary c ord = .error .valueError := by
  unfold Tx.ternary
  have : (!c.bbs.isEmpty) = true := by
    cases hb : c.bbs with
    | nil => exact absurd hb h
    | cons _ _ => rfl
  rw [if_pos this]

/-! non-vacuity: a good circuit with a 3-input nand, an xnor and a constant -/
def ex : Circuit :=
  { nodes := [("a", { ty := some "input", out := some false }), ("b", { ty := some "input", out := some false }),
              ("k", { ty := some "1", out := some false }),
              ("g", { ty := some "nand", out := some false }), ("h", { ty := some "xnor", out := some true }),
              ("i", { ty := some "not", out := some true })],
    edges := [("a", "g"), ("b", "g"), ("k", "g"), ("g", "h"), ("a", "h"), ("h", "i")] }
example : (Tx.ternary ex id).toOption.map (fun r => r.1.nodes.length) = some 17 := by decide
example : Good ex where
  clean := Limit.lintClean_of_checks ex ⟨by decide, by decide, by decide⟩ (by decide) (by decide) (by decide)
  nobb := rfl
  types := by decide
  names := by decide
  acyclic := ⟨fun n => ["a", "b", "k", "g", "h", "i"].idxOf n, by decide⟩
example : Topo ex ["a", "b", "k", "g", "h", "i"] :=
  ⟨(by decide : ["a", "b", "k", "g", "h", "i"] = ex.nodeNames) ▸ List.Perm.refl _,
   Ternary.topo_of_checks ex _ (by decide) (by decide)⟩

end CG.C10
