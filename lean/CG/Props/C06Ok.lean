/-
  C06 (continued) — total correctness of strip_blackboxes: the call succeeds exactly when the exposed names are free.
  Property theorems only; helper lemmas in CG/Proofs/TxOkStrip.lean.
-/
import CG.Props.C06
import CG.Proofs.TxOkStrip
namespace CG.C06

/-- **C06 (strip_blackboxes succeeds exactly when the exposed names are free).** for a typed circuit with distinct node
    names: the call returns normally iff no exposed pin name `inst_pin` is already a (surviving) node and no two kept pins
    share their exposed name — the converse of `strip_blackboxes_rejects_overlap` -/
theorem strip_blackboxes_ok_iff (c : Circuit) (ignore : List Name) (ord : Ord) (hord : OrdOK ord)
    (hty : ∀ p ∈ c.nodes, p.2.ty.isSome = true) (hnd : c.nodeNames.Nodup) :
    (∃ c', Tx.stripBlackboxes c ignore ord = .ok c') ↔
      ¬ ((∃ n, c.has n = true ∧ keptPin c ignore n = true ∧ c.has (Tx.replaceDots n) = true ∧
              droppedPin c ignore (Tx.replaceDots n) = false) ∨
         (∃ n₁ n₂, n₁ ≠ n₂ ∧ c.has n₁ = true ∧ c.has n₂ = true ∧ keptPin c ignore n₁ = true ∧ keptPin c ignore n₂ = true ∧
              Tx.replaceDots n₁ = Tx.replaceDots n₂)) := by
  exact Strip.strip_ok_iff (ig := ignore) hord hty hnd

end CG.C06
