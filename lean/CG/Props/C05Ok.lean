/-
  C05 (continued) — total correctness of insert_registers: when the call succeeds.  Property theorems only; helper lemmas
  in CG/Proofs/TxOk*.lean.
-/
import CG.Props.C06
import CG.Props.C05
import CG.Proofs.TxOkIR5
import CG.Proofs.TxOkDepth
import CG.Proofs.TxOkCex

namespace CG.C05

/-! The first formulation of `insert_registers_ok` (hypotheses as I had guessed them) is FALSE and has been removed from this file; its
    refutation and the corrected statements follow. -/

/-- **`insert_registers_ok` is false as stated** (`TxOkCex.cex`): `LintClean` (like `lint` itself) accepts a node of
    type `bb_input` whose name has no dot while the registry is empty; when such a node `p` lies on a register level,
    `add_blackbox(ff, "ff_p", {"d": "p", …})` raises ValueError because a `bb_input` node may not drive anything.  All
    hypotheses of `insert_registers_ok` hold for `TxOkCex.cex` (k = 1, fuel = 10, identity order) and the call returns
    `.error .valueError` -/
theorem insert_registers_ok_false :
    ¬ (∀ (c : Circuit) (k : Nat) (ord : Ord), OrdOK ord → ∀ (fuel : Nat),
      LintClean c → c.bbs = [] → Acyclic c →
      (∀ p ∈ c.nodes, p.1 ≠ "" ∧ Circuit.isDigit0 p.1 = false ∧ hasDot p.1 = false) →
      c.nodes.length + 1 ≤ fuel →
      ∀ (depths : List (Name × Nat)),
      c.nodeNames.mapM (fun n => match Query.depth c false [n] true ord fuel with
        | .ok d => Except.ok (n, d) | .error e => .error e) = .ok depths →
      Tx.roundDiv (depths.foldl (fun m p => max m p.2) 0) (k + 1) ≠ 0 →
      (∀ n, c.has n = true → c.has ("ff_" ++ n) = false ∧ ∀ g, c.has ("ff_" ++ n ++ "." ++ g) = false) →
      (c.has "clk" = true → c.ty? "clk" = some "input") →
      ∃ c', Tx.insertRegisters c k ord fuel = .ok c') :=
  TxOkCex.insert_registers_ok_false

/-- **C05 (insert_registers succeeds), corrected.**  ADDED HYPOTHESIS `hnopin`: no node has type `bb_input` (with
    `c.bbs = []` such a node is not a pin of any instance; see `insert_registers_ok_false`).  Everything else is weaker
    than in `insert_registers_ok`: acyclicity and the fuel bound are not needed once the depth table `depths` is given,
    names may be empty, only the three pin names `ff_<n>.d`, `ff_<n>.q`, `ff_<n>.clk` must be free (the fresh buffer
    name is uniquified by `uid`), and an existing `clk` node only must not be a `bb_output` -/
theorem insert_registers_ok_fixed (c : Circuit) (k : Nat) (ord : Ord) (hord : OrdOK ord) (fuel : Nat)
    (hc : LintClean c) (hnobb : c.bbs = [])
    (hnopin : ∀ p ∈ c.nodes, p.2.ty ≠ some "bb_input")
    (hnames : ∀ p ∈ c.nodes, Circuit.isDigit0 p.1 = false ∧ hasDot p.1 = false)
    (depths : List (Name × Nat))
    (hdepths : c.nodeNames.mapM (fun n => match Query.depth c false [n] true ord fuel with
        | .ok d => Except.ok (n, d) | .error e => .error e) = .ok depths)
    (hinc : Tx.roundDiv (depths.foldl (fun m p => max m p.2) 0) (k + 1) ≠ 0)
    (hclash : ∀ n, c.has n = true → ∀ g ∈ ["d", "q", "clk"], c.has ("ff_" ++ n ++ "." ++ g) = false)
    (hclk : c.has "clk" = true → c.ty? "clk" ≠ some "bb_output") :
    ∃ c', Tx.insertRegisters c k ord fuel = .ok c' :=
  TxOk.insert_registers_succeeds c k ord hord fuel hc hnobb hnopin hnames depths hdepths hinc hclash hclk

/-- **C05 (the depth computation of insert_registers succeeds).** on a well-formed acyclic circuit the depth table is
    computed as soon as the fuel is at least the number of nodes -/
theorem insert_registers_depths_ok (c : Circuit) (ord : Ord) (hord : OrdOK ord) (fuel : Nat) (hwf : WF c)
    (hacyc : Acyclic c) (hfuel : c.nodes.length ≤ fuel) :
    ∃ depths, c.nodeNames.mapM (fun n => match Query.depth c false [n] true ord fuel with
        | .ok d => Except.ok (n, d) | .error e => .error e) = .ok depths :=
  TxOk.depths_ok c hwf hacyc ord hord fuel hfuel

/-- **C05 (insert_registers succeeds), corrected, with the hypotheses of `insert_registers_ok`** (plus `hnopin`) and
    without the depth table passed in: the table exists, and the call succeeds whenever its stage increment is not 0 -/
theorem insert_registers_ok_acyclic (c : Circuit) (k : Nat) (ord : Ord) (hord : OrdOK ord) (fuel : Nat)
    (hc : LintClean c) (hnobb : c.bbs = []) (hacyc : Acyclic c)
    (hnopin : ∀ p ∈ c.nodes, p.2.ty ≠ some "bb_input")
    (hnames : ∀ p ∈ c.nodes, p.1 ≠ "" ∧ Circuit.isDigit0 p.1 = false ∧ hasDot p.1 = false)
    (hfuel : c.nodes.length + 1 ≤ fuel)
    (hclash : ∀ n, c.has n = true → c.has ("ff_" ++ n) = false ∧ ∀ g, c.has ("ff_" ++ n ++ "." ++ g) = false)
    (hclk : c.has "clk" = true → c.ty? "clk" = some "input") :
    ∃ depths, c.nodeNames.mapM (fun n => match Query.depth c false [n] true ord fuel with
        | .ok d => Except.ok (n, d) | .error e => .error e) = .ok depths ∧
      (Tx.roundDiv (depths.foldl (fun m p => max m p.2) 0) (k + 1) ≠ 0 →
        ∃ c', Tx.insertRegisters c k ord fuel = .ok c') := by
  obtain ⟨depths, hd⟩ := insert_registers_depths_ok c ord hord fuel hc.toWF hacyc (by omega)
  refine ⟨depths, hd, fun hinc => ?_⟩
  exact insert_registers_ok_fixed c k ord hord fuel hc hnobb hnopin (fun p hp => (hnames p hp).2) depths hd hinc
    (fun n hn g _ => (hclash n hn).2 g) (fun h e => by rw [hclk h] at e; exact absurd (Option.some.inj e) (by decide))

end CG.C05
