/-
  C14 / C02 / C03 (continued) — text level: the module-extraction regular expression of `verilog_to_circuit` on the text the
  library's writer emits.  Property theorems only; helper lemmas in CG/Proofs/VModText*.lean.
-/
import CG.Props.C14
import CG.Props.C03
import CG.Props.C15
import CG.Proofs.VModTextMain
namespace CG.C14
open Verilog


set_option linter.unusedVariables false in
/-- **C02/C03 (text level, module extraction).** on the writer's text the module-extraction regular expression of
    `verilog_to_circuit` returns the whole module, so `Verilog.read` is `parseNetlist` of that text -/
theorem read_written_text (c : Circuit) (beh : Bool) (ord ord' : Ord) (hord : OrdOK ord) (hc : C03.Writable c) (hn : C03.NamesOK c)
    (hio : c.inputs ≠ [] ∨ c.outputs ≠ []) (hpin : ∀ q ∈ c.bbs, q.2.ins ++ q.2.outs ≠ [])
    (hkw : ∀ p ∈ c.nodes, p.1 ≠ "endmodule")
    (t : String) (h : write c beh ord = .ok t) :
    Verilog.read t c.name (C03.bbDefs c) ord' = parseNetlist t (C03.bbDefs c) ord' :=
  VMT.read_write c beh ord ord' hord hc.wr hn.nok hio hpin (C03.bbDefs c) t h

end CG.C14
