/-
  C12 — graph queries agree with their graph-theoretic definitions.
  Property theorems only; helper lemmas live in CG/Proofs/Query*.lean.
-/
import CG.Query
import CG.Spec
import CG.Proofs.Query
set_option linter.unusedVariables false
namespace CG.C12
open Query

/-- a directed path with `k` wires from `a` to `b` -/
inductive Path (c : Circuit) : Name → Name → Nat → Prop where
  | nil (a : Name) : Path c a a 0
  | cons {a b d : Name} {k : Nat} : (a, b) ∈ c.edges → Path c b d k → Path c a d (k + 1)

/-- `b` is a proper descendant of `a` -/
def Reach1 (c : Circuit) (a b : Name) : Prop := ∃ k, 0 < k ∧ Path c a b k

/-- `d` is the length of a longest path from `a` in direction `fwd` (to a sink / from a source) -/
def Longest (c : Circuit) (fwd : Bool) (a : Name) (d : Nat) : Prop :=
  (∃ b, if fwd then Path c a b d else Path c b a d) ∧
  ∀ b k, (if fwd then Path c a b k else Path c b a k) → k ≤ d

/-! bridges to the generic path vocabulary of the helper files -/
theorem path_iff {c : Circuit} {a b : Name} {k : Nat} : Path c a b k ↔ Q.RPath (Q.EdgeRel c) a b k := by
  constructor
  · intro h
    induction h with
    | nil a => exact .nil a
    | cons he _ ih => exact .cons he ih
  · intro h
    induction h with
    | nil a => exact .nil a
    | cons he _ ih => exact .cons he ih

theorem reach1_iff {c : Circuit} {a b : Name} : Reach1 c a b ↔ Q.Plus (Q.EdgeRel c) a b := by
  constructor
  · rintro ⟨k, hk, hp⟩
    obtain ⟨j, rfl⟩ : ∃ j, k = j + 1 := ⟨k - 1, by omega⟩
    exact ⟨j, path_iff.mp hp⟩
  · rintro ⟨k, hp⟩
    exact ⟨k + 1, Nat.succ_pos k, path_iff.mpr hp⟩

/-- fan-in / fan-out of a node list are the direct predecessors / successors -/
theorem fanin_fanout_spec (c : Circuit) (ns : List Name) (h : ∀ n ∈ ns, c.has n = true) :
    (∃ r, faninOf c ns = .ok r ∧ r.Nodup ∧ ∀ x, x ∈ r ↔ ∃ n ∈ ns, (x, n) ∈ c.edges) ∧
    (∃ r, fanoutOf c ns = .ok r ∧ r.Nodup ∧ ∀ x, x ∈ r ↔ ∃ n ∈ ns, (n, x) ∈ c.edges) := by
  refine ⟨⟨_, Q.faninOf_ok c ns h, Q.nodup_unionAll _, ?_⟩, ⟨_, Q.fanoutOf_ok c ns h, Q.nodup_unionAll _, ?_⟩⟩
  · intro x
    rw [Q.mem_unionAll_map]
    simp only [Q.mem_fanin]
  · intro x
    rw [Q.mem_unionAll_map]
    simp only [Q.mem_fanout]

/-- transitive fan-in / fan-out are the proper ancestors / descendants (other than the node itself) -/
theorem transitive_spec (c : Circuit) (hwf : WF c) (ns : List Name) (h : ∀ n ∈ ns, c.has n = true) :
    (∃ r, transitiveFanin c ns = .ok r ∧ r.Nodup ∧ ∀ x, x ∈ r ↔ ∃ n ∈ ns, Reach1 c x n ∧ x ≠ n) ∧
    (∃ r, transitiveFanout c ns = .ok r ∧ r.Nodup ∧ ∀ x, x ∈ r ↔ ∃ n ∈ ns, Reach1 c n x ∧ x ≠ n) := by
  refine ⟨⟨_, Q.transitiveFanin_ok c ns h, Q.nodup_unionAll _, ?_⟩,
    ⟨_, Q.transitiveFanout_ok c ns h, Q.nodup_unionAll _, ?_⟩⟩
  · intro x
    rw [Q.mem_tfi c hwf]
    simp only [reach1_iff]
  · intro x
    rw [Q.mem_tfo c hwf]
    simp only [reach1_iff]

/-- a missing node is rejected (networkx raises) -/
theorem transitive_missing (c : Circuit) (ns : List Name) (h : ∃ n ∈ ns, c.has n = false) :
    transitiveFanin c ns = .error .nxError ∧ transitiveFanout c ns = .error .nxError := by
  exact Q.transitive_missing c ns h

/-- startpoints(ns) / endpoints(ns): the inputs and blackbox outputs (resp. outputs and blackbox inputs) among
    `ns` and its ancestors (resp. descendants) -/
theorem startpoints_endpoints_spec (c : Circuit) (hwf : WF c) (htyped : ∀ p ∈ c.nodes, p.2.ty.isSome = true)
    (ns : List Name) (h : ∀ n ∈ ns, c.has n = true) :
    (∃ r, startpoints c ns = .ok r ∧ ∀ x, x ∈ r ↔
        ((x ∈ ns ∨ ∃ n ∈ ns, Reach1 c x n ∧ x ≠ n) ∧ (c.ty? x = some "input" ∨ c.ty? x = some "bb_output"))) ∧
    (∃ r, endpoints c ns = .ok r ∧ ∀ x, x ∈ r ↔
        ((x ∈ ns ∨ ∃ n ∈ ns, Reach1 c n x ∧ x ≠ n) ∧ (c.isOut x = true ∨ c.ty? x = some "bb_input"))) := by
  refine ⟨⟨_, Q.startpoints_ok c htyped ns h, ?_⟩, ⟨_, Q.endpoints_ok c htyped ns h, ?_⟩⟩
  · intro x
    rw [List.mem_filter, Q.mem_dedup, List.mem_append, Q.mem_tfi c hwf, List.contains_iff_mem,
      Q.mem_startpointsAll c hwf.nodup]
    simp only [reach1_iff]
  · intro x
    rw [List.mem_filter, Q.mem_dedup, List.mem_append, Q.mem_tfo c hwf, List.contains_iff_mem,
      Q.mem_endpointsAll c hwf.nodup]
    simp only [reach1_iff]

/-- startpoints() / endpoints() without an argument (`None`): all inputs and blackbox outputs (resp. outputs and blackbox
    inputs) of the circuit; an EMPTY collection, in contrast, selects nothing (`startpoints_endpoints_spec` with `ns = []`;
    before the K52 repair `[]` was treated like `None`) -/
theorem startpoints_endpoints_all (c : Circuit) (hwf : WF c) (htyped : ∀ p ∈ c.nodes, p.2.ty.isSome = true) :
    (∃ r, startpointsOpt c none = .ok r ∧ ∀ x, x ∈ r ↔ (c.ty? x = some "input" ∨ c.ty? x = some "bb_output")) ∧
    (∃ r, endpointsOpt c none = .ok r ∧ ∀ x, x ∈ r ↔ (c.isOut x = true ∨ c.ty? x = some "bb_input")) ∧
    startpointsOpt c (some []) = .ok [] ∧ endpointsOpt c (some []) = .ok [] := by
  refine ⟨⟨c.startpointsAll, ?_, Q.mem_startpointsAll c hwf.nodup⟩, ⟨c.endpointsAll, ?_, Q.mem_endpointsAll c hwf.nodup⟩, ?_, ?_⟩
  · simp only [startpointsOpt, Q.any_ty_none_false c htyped]; rfl
  · simp only [endpointsOpt, Q.any_ty_none_false c htyped]; rfl
  · have := Q.startpoints_ok c htyped [] (by simp)
    rw [startpointsOpt, this]; rfl
  · have := Q.endpoints_ok c htyped [] (by simp)
    rw [endpointsOpt, this]; rfl

/-- topo_sort returns a valid topological order of all nodes … -/
theorem topo_valid (c : Circuit) (hwf : WF c) (l : List Name) (h : topoSort c = some l) :
    l.Perm c.nodeNames ∧
    ∀ i j (hi : i < l.length) (hj : j < l.length), (l[i], l[j]) ∈ c.edges → i < j := by
  obtain ⟨h1, h2, h3⟩ := Q.topoSort_spec c hwf l h
  exact ⟨Q.perm_of_nodup_mem h1 hwf.nodup h2, Q.topoOK_index c l h3⟩

/-- … and is_cyclic is true exactly when a directed cycle exists -/
theorem is_cyclic_iff (c : Circuit) (hwf : WF c) : isCyclic c = true ↔ ∃ n, Reach1 c n n := by
  rw [Q.isCyclic_iff c hwf]
  simp only [reach1_iff]

/-- levelize gives every node the longest path length to a source, and rejects exactly the cyclic circuits -/
theorem levelize_spec (c : Circuit) (hwf : WF c) (htyped : ∀ p ∈ c.nodes, p.2.ty.isSome = true)
    (hsrc : ∀ n t, c.ty? n = some t → t ∈ ["input", "0", "1", "x"] → c.fanin n = []) :
    (isCyclic c = true → levelize c = .error .valueError) ∧
    (isCyclic c = false → ∃ lv, levelize c = .ok lv ∧ (lv.map (·.1)).Perm c.nodeNames ∧
        ∀ p ∈ lv, Longest c false p.1 p.2) := by
  refine ⟨Q.levelize_cyclic c, ?_⟩
  intro h
  obtain ⟨lv, h1, h2, h3⟩ := Q.levelize_ok c hwf htyped hsrc h
  refine ⟨lv, h1, h2, ?_⟩
  intro p hp
  obtain ⟨⟨b, hb⟩, hub⟩ := h3 p hp
  refine ⟨⟨b, ?_⟩, ?_⟩
  · simpa using path_iff.mpr hb
  · intro b k hk
    exact hub b k (path_iff.mp (by simpa using hk))

/-- reconvergent_fanout_nodes yields exactly the nodes having two distinct fan-out branches that reach a common
    node (a branch reaches itself) -/
theorem reconvergent_iff (c : Circuit) (hwf : WF c) (ord : Ord) (hord : OrdOK ord) (n : Name) :
    n ∈ reconvergentFanoutNodes c ord ↔
      (c.has n = true ∧ ∃ a b x, a ≠ b ∧ (n, a) ∈ c.edges ∧ (n, b) ∈ c.edges ∧
        (x = a ∨ Reach1 c a x) ∧ (x = b ∨ Reach1 c b x)) := by
  rw [Q.reconvergent_iff c hwf ord hord]
  simp only [Q.Branch, reach1_iff]

/-- the depth functions reject cyclic circuits -/
theorem depth_rejects_cyclic (c : Circuit) (fwd : Bool) (ns : List Name) (mx : Bool) (ord : Ord) (fuel : Nat)
    (h : isCyclic c = true) : depth c fwd ns mx ord fuel = .error .valueError := by
  unfold depth
  rw [if_pos h]

/-- soundness of the recursive depth visit: every returned value is the length of a real path from `ns` -/
theorem depth_sound (c : Circuit) (hwf : WF c) (fwd : Bool) (ns : List Name) (h : ∀ n ∈ ns, c.has n = true)
    (ord : Ord) (hord : OrdOK ord) (fuel d : Nat) (hd : depth c fwd ns true ord fuel = .ok d) :
    ∃ a ∈ ns, ∃ b, (if fwd then Path c a b d else Path c b a d) := by
  obtain ⟨a, ha, b, hb⟩ := Q.depth_sound c fwd ns h ord hord fuel d hd
  refine ⟨a, ha, b, ?_⟩
  cases fwd
  · simpa using path_iff.mpr (by simpa using hb)
  · simpa using path_iff.mpr (by simpa using hb)

/-- completeness: the maximum depth is the longest path length from `ns` to a sink (resp. from a source) -/
theorem depth_complete (c : Circuit) (hwf : WF c) (fwd : Bool) (ns : List Name) (h : ∀ n ∈ ns, c.has n = true)
    (ord : Ord) (hord : OrdOK ord) (fuel d : Nat) (hd : depth c fwd ns true ord fuel = .ok d) :
    ∀ a ∈ ns, ∀ b k, (if fwd then Path c a b k else Path c b a k) → k ≤ d := by
  intro a ha b k hp
  apply Q.depth_complete c hwf fwd ns h ord hord fuel d hd a ha b k
  cases fwd
  · simpa using path_iff.mp (by simpa using hp)
  · simpa using path_iff.mp (by simpa using hp)

/-- a walk along wires, with the list of visited nodes (both endpoints included) -/
inductive Walk (c : Circuit) : Name → Name → List Name → Prop where
  | nil (a : Name) : Walk c a a [a]
  | cons {a b d : Name} {l : List Name} : (a, b) ∈ c.edges → Walk c b d l → Walk c a d (a :: l)

/-- every set returned by kcuts(n, k) other than {n} has at most k nodes and separates `n` from all sources:
    every walk from a fan-in-free node to `n` passes through the cut -/
theorem walk_iff {c : Circuit} {a b : Name} {l : List Name} : Walk c a b l ↔ Q.QWalk (Q.EdgeRel c) a b l := by
  constructor
  · intro h
    induction h with
    | nil a => exact .nil a
    | cons he _ ih => exact .cons he ih
  · intro h
    induction h with
    | nil a => exact .nil a
    | cons he _ ih => exact .cons he ih

/- hypothesis `hk : 0 < k` added: the statement is false for `k = 0` (see REPORT.md, counterexample `kcuts_k0`) -/
theorem kcuts_sep (c : Circuit) (hwf : WF c) (hacyc : Acyclic c) (k : Nat) (hk : 0 < k) (ord : Ord) (hord : OrdOK ord)
    (fuel : Nat) (n : Name) (cuts : List (List Name)) (h : kcuts c k ord fuel n = some cuts) :
    ∀ cut ∈ cuts, cut = [n] ∨
      (cut.length ≤ k ∧ ∀ s l, c.fanin s = [] → Walk c s n l → ∃ x ∈ cut, x ∈ l) := by
  intro cut hcut
  rcases Q.kcuts_sep c k hk ord hord fuel n cuts h cut hcut with h1 | ⟨h1, h2⟩
  · exact Or.inl h1
  · exact Or.inr ⟨h1, fun s l hs hw => h2 s l hs (walk_iff.mp hw)⟩

/-- counterexample for `k = 0`: the single-fan-in cut `["a"]` of `"b"` is returned unfiltered -/
def kcutsCx : Circuit :=
  { nodes := [("a", { ty := some "input", out := some false }), ("b", { ty := some "buf", out := some true })],
    edges := [("a", "b")] }
example : kcuts kcutsCx 0 id 10 "b" = some [["a"], ["b"]] := by decide

/-! non-vacuity: a reconvergent DAG with two components -/
def ex : Circuit :=
  { nodes := [("a", { ty := some "input", out := some false }), ("b", { ty := some "buf", out := some false }),
              ("g", { ty := some "and", out := some true }), ("z", { ty := some "input", out := some true })],
    edges := [("a", "b"), ("a", "g"), ("b", "g")] }
example : reconvergentFanoutNodes ex id = ["a"] := by decide
example : (depth ex true ["a"] true id 100).toOption = some 2 := by decide
example : (levelize ex).toOption = some [("a", 0), ("z", 0), ("b", 1), ("g", 2)] := by decide
example : WF ex := by
  refine ⟨by decide, by decide, by decide⟩

end CG.C12
