/-
  C17 (continued) — `tx.supergates` AS A WHOLE: `limit_fanin(c, 2)` followed by the decomposition algorithm, for circuits of
  ANY fan-in; and the cycle test of the dependency graph (`depCyclicGo`) decides exactly whether a topological listing exists.
  Property theorems only; helper lemmas in CG/Proofs/SGRun*.lean.
-/
import CG.Props.C17Algo
import CG.Props.C05
import CG.Proofs.SGRunMain
namespace CG.C17
open Supergates

/-- **C17 (whole function).** for every lint-clean, blackbox-free, acyclic circuit (any fan-in, any gate mix) without stray
    `bb_output`-typed nodes and every set-iteration order: the call succeeds, works on the fan-in-limited circuit `c2` (same
    inputs and outputs, every original node computes the same function), `c2` is `Limited`, and whenever the minimal supergates
    have distinct heads every topological listing of the result satisfies the whole statement `Spec c2`. -/
theorem run_spec (c : Circuit) (ord : Ord) (hord : OrdOK ord) (hc : LintClean c) (hnobb : c.bbs = [])
    (hac : Acyclic c) (hname : ∀ n, 2 < (c.fanin n).length → Circuit.isDigit0 n = false)
    (hbo : ∀ n, c.ty? n ≠ some "bb_output") :
    ∃ c2 r, Tx.limitFanin c 2 ord = .ok c2 ∧ Supergates.run c ord = .ok r ∧ r = algo c2 (ord c2.outputs) ∧
      c2.inputs = c.inputs ∧ c2.outputs = c.outputs ∧ Refines c c2 id ∧ Limited c2 ∧
      (r.headsDistinct = true → ∀ sgs, TopoOf c2 r.sgs sgs → Spec c2 sgs) := by
  obtain ⟨c2, hlim, hrun, hins, houts, href, hlc, hbbs, hacy, hfi, hbo2, hperm⟩ :=
    SGRun.run_limited c ord hord hc hnobb hac hname hbo
  have hL : Limited c2 := ⟨hlc, hbbs, hacy, hfi⟩
  refine ⟨c2, _, hlim, hrun, rfl, hins, houts, href, hL, fun hd sgs hs => ?_⟩
  exact algo_spec_fixed c2 hL (fun _ _ n _ => hbo2 n) (ord c2.outputs) hperm hd sgs hs

/-- blackboxes are rejected with NotImplementedError -/
theorem run_rejects_blackboxes (c : Circuit) (ord : Ord) (h : c.bbs ≠ []) : Supergates.run c ord = .error .notImplemented :=
  SGRun.run_rejects_blackboxes c ord h

/-- **the dependency-graph cycle test is exact**: `cyclic = false` (no NetworkXUnfeasible) iff a topological listing of the
    found supergates exists — so `run_spec`'s conclusion is about a non-empty set of listings exactly when the real function
    returns. (heads distinct, as in `algo_spec_fixed`) -/
theorem topo_exists_iff (c2 : Circuit) (outs : List Name) (hd : (algo c2 outs).headsDistinct = true) :
    (algo c2 outs).cyclic = false ↔ ∃ sgs, TopoOf c2 (algo c2 outs).sgs sgs :=
  SGRun.topo_exists_iff c2 outs hd

end CG.C17
