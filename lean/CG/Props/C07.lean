/-
  C07 — the construction API never leaves an illegally wired circuit.
  Property theorems only; helper lemmas live in CG/Proofs/Api*.lean.
-/
import CG.Api
import CG.Proofs.Api
namespace CG.C07

/-- static tie: the type lists guarding `add`/`connect` are the ones these proofs are about -/
theorem tables_supported : Generated.supported_types = some Expected.supported_types := by decide
theorem tables_add : Generated.add_lists = some Expected.add_lists := by decide
theorem tables_connect : Generated.connect_lists = some Expected.connect_lists := by decide

def OrdOK (ord : Ord) : Prop := ∀ l, (ord l).Perm l

/-- the wiring clauses of the statement -/
structure Wired (c : Circuit) : Prop where
  nodup : c.nodeNames.Nodup
  edgesNodup : c.edges.Nodup
  closed : ∀ e ∈ c.edges, c.has e.1 = true ∧ c.has e.2 = true
  typed : ∀ p ∈ c.nodes, ∃ t, p.2.ty = some t ∧ t ∈ Expected.supported_types
  noFanin : ∀ e ∈ c.edges, ∀ t, c.ty? e.2 = some t → t ∉ ["input", "0", "1", "x", "bb_output"]
  single : ∀ n t, c.ty? n = some t → t ∈ ["bb_input", "buf", "not"] → (c.fanin n).length ≤ 1
  noBBInFanout : ∀ e ∈ c.edges, c.ty? e.1 ≠ some "bb_input"
  bbOut : ∀ e ∈ c.edges, c.ty? e.1 = some "bb_output" →
            c.ty? e.2 = some "buf" ∧ (c.fanout e.1).length ≤ 1

/-- every recorded blackbox instance has its pin nodes with the right pin type, unless the caller
    itself removed that pin node (`gone`) -/
def PinsOK (c : Circuit) (gone : List Name) : Prop :=
  ∀ p ∈ c.bbs,
    (∀ g ∈ p.2.ins, (p.1 ++ "." ++ g) ∉ gone → c.ty? (p.1 ++ "." ++ g) = some "bb_input") ∧
    (∀ g ∈ p.2.outs, (p.1 ++ "." ++ g) ∉ gone → c.ty? (p.1 ++ "." ++ g) = some "bb_output")

def Inv (c : Circuit) (gone : List Name) : Prop := Wired c ∧ PinsOK c gone

/-- side conditions on a call: `add` with default flags or `uid=True` only; circuits handed in as
    arguments are themselves legally wired; and (proof-forced, witnessed below and on the real code: K22)
    the child given to `fill_blackbox` has no blackbox pin marked as an output -/
def OpOK : Op → Prop
  | .add a => a.allowRedef = false ∧ a.addConnected = false
  | .addSubcircuit sc _ _ => Inv sc []
  | .fillBlackbox _ sc => Inv sc [] ∧ ∀ n ∈ sc.outputs, sc.ty? n ≠ some "bb_input" ∧ sc.ty? n ≠ some "bb_output"
  | _ => True

/-- (proof-forced, witnessed below on the model: K24, K25) state-dependent side condition of a
    `fill_blackbox inst sub` call: (a) a pin node of the filled instance that is present still has its pin
    type (i.e. it is not a node the caller removed and re-created with another type), and (b) no other
    registered instance claims one of these pin nodes, unless that node is already exempt (`gone`) -/
def FillOK (c : Circuit) (gone : List Name) : Op → Prop
  | .fillBlackbox inst _ => ∀ bb, c.bbs.lookup inst = some bb →
      (∀ p ∈ bb.ins, c.has (inst ++ "." ++ p) = true → c.ty? (inst ++ "." ++ p) = some "bb_input") ∧
      (∀ p ∈ bb.outs, c.has (inst ++ "." ++ p) = true → c.ty? (inst ++ "." ++ p) = some "bb_output") ∧
      (∀ q ∈ c.bbs, q.1 ≠ inst → ∀ g ∈ q.2.ins ++ q.2.outs, ∀ p ∈ bb.ins ++ bb.outs,
         q.1 ++ "." ++ g = inst ++ "." ++ p → inst ++ "." ++ p ∈ gone)
  | _ => True

/-- `FillOK` at every call of a history, in the state in which the call is made -/
def RunOK (ord : Ord) : Circuit → List Name → List Op → Prop
  | _, _, [] => True
  | c, gone, op :: ops => FillOK c gone op ∧ RunOK ord (step ord c op).1 (goneAfter gone op) ops

/-! bridge to the formulation used in `CG/Proofs` (same clauses, field for field) -/
private theorem wired_iff (c : Circuit) : Wired c ↔ WS c :=
  ⟨fun h => (WiredL_iff_WS c).1 ⟨h.1, h.2, h.3, h.4, h.5, h.6, h.7, h.8⟩,
   fun h => let w := (WiredL_iff_WS c).2 h; ⟨w.1, w.2, w.3, w.4, w.5, w.6, w.7, w.8⟩⟩
private theorem inv_iff (c : Circuit) (gone : List Name) : Inv c gone ↔ Inv' c gone :=
  ⟨fun h => ⟨(wired_iff c).1 h.1, h.2⟩, fun h => ⟨(wired_iff c).2 h.1, h.2⟩⟩
private theorem opOK_iff (op : Op) : OpOK op ↔ OpOK' op := by
  cases op with
  | addSubcircuit sc _ _ => exact inv_iff sc []
  | fillBlackbox _ sc => exact ⟨fun h => ⟨(inv_iff sc []).1 h.1, h.2⟩, fun h => ⟨(inv_iff sc []).2 h.1, h.2⟩⟩
  | _ => exact Iff.rfl
private theorem fillOK_iff (c : Circuit) (gone : List Name) (op : Op) : FillOK c gone op ↔ StepOK' c gone op := by
  cases op <;> exact Iff.rfl
private theorem runOK_iff (ord : Ord) : ∀ (ops : List Op) (c : Circuit) (gone : List Name),
    RunOK ord c gone ops ↔ RunOK' ord c gone ops
  | [], _, _ => Iff.rfl
  | op :: ops, c, gone => by
    show (FillOK c gone op ∧ _) ↔ (StepOK' c gone op ∧ _)
    rw [fillOK_iff, runOK_iff ord ops]

theorem inv_init (name : String) : Inv (Circuit.empty name) [] :=
  (inv_iff _ _).2 (empty_Inv name)

/-- one call — successful or raising — preserves the invariant -/
theorem inv_step (ord : Ord) (hord : OrdOK ord) (c : Circuit) (gone : List Name) (op : Op)
    (h : Inv c gone) (hop : OpOK op) (hfill : FillOK c gone op) : Inv (step ord c op).1 (goneAfter gone op) :=
  (inv_iff _ _).2 (step_Inv ord hord c gone op ((inv_iff _ _).1 h) ((opOK_iff op).1 hop)
    ((fillOK_iff c gone op).1 hfill))

/-- **C07.** every reachable state, after any history of calls with arbitrary arguments -/
theorem inv_reachable (ord : Ord) (hord : OrdOK ord) (c : Circuit) (gone : List Name) (ops : List Op)
    (h : Inv c gone) (hops : ∀ op ∈ ops, OpOK op) (hfills : RunOK ord c gone ops) :
    Inv (run ord c gone ops).1 (run ord c gone ops).2 :=
  (inv_iff _ _).2 (run_Inv ord hord ops c gone ((inv_iff _ _).1 h)
    (fun op ho => (opOK_iff op).1 (hops op ho)) ((runOK_iff ord ops c gone).1 hfills))

/-- the exception class of a rejected call is ValueError, except for the enumerated escapes:
    KeyError from `set_output` on a missing node and IndexError from `add` of the empty name (K12d) -/
theorem reject_class (ord : Ord) (c : Circuit) (gone : List Name) (op : Op) (h : Inv c gone) (hop : OpOK op) :
    (step ord c op).2 = .ok ∨ (step ord c op).2 = .valueError
    ∨ (∃ ns b, op = .setOutput ns b ∧ (step ord c op).2 = .keyError)
    ∨ ((step ord c op).2 = .indexError ∧ ∃ a, op = .add a) ∨ (step ord c op).2 = .fuel :=
  step_class ord c gone op ((inv_iff _ _).1 h) ((opOK_iff op).1 hop)

/-- a rejected `connect` changes nothing at all -/
theorem connect_reject_unchanged (c : Circuit) (us vs : List Name) (h : (c.connect us vs).2 ≠ .ok) :
    (c.connect us vs).1 = c :=
  connect_reject_unchanged' c us vs h

/-- a rejected call never adds an edge — for every op except the enumerated non-atomic ones (K12a–c:
    `add` with both fan-in and fan-out, `add_blackbox`/`add_subcircuit` failing at a later connection) -/
theorem reject_no_edge_partial (ord : Ord) (c : Circuit) (op : Op) (h : (step ord c op).2 ≠ .ok)
    (hop : match op with
      | .add a => a.fanout = [] ∨ a.fanin = []
      | .addBlackbox _ _ conns => conns = []
      | .addSubcircuit _ _ conns => conns = []
      | _ => True) :
    ∀ e ∈ (step ord c op).1.edges, e ∈ c.edges :=
  step_reject_edges ord c op h hop

set_option linter.unusedVariables false in
/-- `add(..., uid=True)` never overwrites or renames an existing node -/
theorem add_uid_fresh (c : Circuit) (a : Circuit.AddArgs) (hu : a.uid = true) (hn : c.nodeNames.Nodup) :
    (∀ p ∈ c.nodes, p ∈ (c.add a).1.nodes) ∧ ((c.add a).2.1 = .ok → c.has (c.add a).2.2 = false) :=
  add_uid_fresh' c a hu

/-- the non-atomicity is real: the model exhibits K12a -/
example : let c := ((Circuit.empty).add { n := "b", ty := "buf" }).1
    (c.add { n := "g", ty := "buf", fanin := ["missing"], fanout := ["b"] }).2.1 = .valueError ∧
    ("g", "b") ∈ (c.add { n := "g", ty := "buf", fanin := ["missing"], fanout := ["b"] }).1.edges := by
  decide

/-! the side condition `FillOK` is needed: without it `inv_step`/`inv_reachable` are false on the model -/

/-- a child circuit consisting of one input node -/
def subIn (n : Name) : Circuit := { nodes := [(n, { ty := some "input", out := some false })] }

theorem subIn_inv (n : Name) (h : (run id Circuit.empty [] [.add { n := n, ty := "input" }]) = (subIn n, [])) :
    Inv (subIn n) [] := by
  have := inv_reachable id (fun _ => List.Perm.refl _) Circuit.empty [] [.add { n := n, ty := "input" }]
    (inv_init _) (by intro op ho; simp at ho; subst ho; simp [OpOK]) (by simp [RunOK, FillOK])
  rw [h] at this; exact this

/-- K24 (clause (a) of `FillOK`): a history from the empty circuit, every call satisfying `OpOK`, in which the
    caller removes the pin node `u.d`, re-creates it as a 2-input `and`, and then fills `u`: `fill_blackbox`
    renames the node to `u_d` and retypes it `buf`, leaving a `buf` with two fan-ins -/
theorem K24_witness :
    let ops : List Op := [.add { n := "a", ty := "input" }, .add { n := "b", ty := "input" },
      .addBlackbox { name := "ff", ins := ["d"], outs := [] } "u" [], .remove ["u.d"],
      .add { n := "u.d", ty := "and", fanin := ["a", "b"] }, .fillBlackbox "u" (subIn "d")]
    (∀ op ∈ ops, OpOK op) ∧ ¬ Inv (run id Circuit.empty [] ops).1 (run id Circuit.empty [] ops).2 := by
  refine ⟨?_, ?_⟩
  · intro op ho
    simp at ho
    rcases ho with ho | ho | ho | ho | ho | ho <;> subst ho <;> simp [OpOK]
    exact ⟨subIn_inv "d" (by decide), by decide⟩
  · intro h
    exact absurd (h.1.single "u_d" "buf" (by decide) (by decide)) (by decide)

/-- two registered instances `a` (pin `b.c`) and `a.b` (pin `c`) sharing the pin node `a.b.c` -/
def scK25 : Circuit :=
  { nodes := [("a.b.c", { ty := some "bb_input", out := some false })],
    bbs := [("a", { name := "x", ins := ["b.c"], outs := [] }), ("a.b", { name := "y", ins := ["c"], outs := [] })] }

theorem scK25_inv : Inv scK25 [] := by
  refine ⟨⟨by decide, by decide, ?_, ?_, ?_, ?_, ?_, ?_⟩, ?_⟩
  · intro e he; simp [scK25] at he
  · intro p hp; simp [scK25] at hp; subst hp; exact ⟨"bb_input", rfl, by decide⟩
  · intro e he; simp [scK25] at he
  · intro n t _ _; simp [scK25, Circuit.fanin]
  · intro e he; simp [scK25] at he
  · intro e he; simp [scK25] at he
  · intro p hp
    simp [scK25] at hp
    rcases hp with hp | hp <;> subst hp <;> decide

/-- K25 (clause (b) of `FillOK`): a state satisfying the invariant with nothing removed, in which filling `a.b`
    renames the node `a.b.c` that is also the pin `b.c` of instance `a`; `a` is left without its pin node.
    (The state is reachable: `add_subcircuit(scK25, "s")` into the empty circuit, then `fill_blackbox("s_a.b")`.) -/
theorem K25_witness : Inv scK25 [] ∧ OpOK (.fillBlackbox "a.b" (subIn "c")) ∧
      ¬ Inv (step id scK25 (.fillBlackbox "a.b" (subIn "c"))).1 [] := by
  refine ⟨scK25_inv, ⟨subIn_inv "c" (by decide), by decide⟩, ?_⟩
  intro h
  have := (h.2 ("a", { name := "x", ins := ["b.c"], outs := [] }) (by decide)).1 "b.c" (by decide) (by decide)
  exact absurd this (by decide)

/-- K25 as a history from the empty circuit (so `inv_reachable` needs clause (b) too) -/
theorem K25_witness_reachable :
    let ops : List Op := [.addSubcircuit scK25 "s" [], .fillBlackbox "s_a.b" (subIn "c")]
    (∀ op ∈ ops, OpOK op) ∧ ¬ Inv (run id Circuit.empty [] ops).1 (run id Circuit.empty [] ops).2 := by
  refine ⟨?_, ?_⟩
  · intro op ho
    simp at ho
    rcases ho with ho | ho <;> subst ho
    · exact scK25_inv
    · exact ⟨subIn_inv "c" (by decide), by decide⟩
  · intro h
    have := (h.2 ("s_a", { name := "x", ins := ["b.c"], outs := [] }) (by decide)).1 "b.c" (by decide) (by decide)
    exact absurd this (by decide)

/-- non-vacuity: a concrete history reaches a non-trivial state satisfying the invariant's hypotheses -/
example : Inv (run id (Circuit.empty) [] [.add { n := "a", ty := "input" },
    .add { n := "o", ty := "buf", output := true },
    .addBlackbox { name := "ff", ins := ["d"], outs := ["q"] } "u" [("d", ["a"]), ("q", ["o"])]]).1 [] :=
  inv_reachable id (fun _ => List.Perm.refl _) _ _ _ (inv_init _) (by intro op h; simp at h; rcases h with h | h | h <;> subst h <;> simp [OpOK])
    (by simp [RunOK, FillOK])

end CG.C07
