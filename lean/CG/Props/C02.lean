/-
  C02 — the Verilog parser yields the circuit the netlist denotes.
  Theorems are about the token level and upward: `Verilog.pExpr`/`parseModule` (the grammar of verilog.lark as a
  precedence-climbing parser) and `Verilog.transform` (the lark Transformer callbacks replayed in reduction order).
  The character level (lark's lexer vs `Verilog.lex`, lark's LALR tables vs the hand-written parser, the module-cutting
  regular expression) is tied to the real code by differential testing only: that part is C02_partial.
  Property theorems only; helper lemmas live in CG/Proofs/Vlog*.lean.
-/
import CG.Verilog
import CG.VerilogTables
import CG.Spec
import CG.Proofs.Vlog
import CG.Props.C14
import CG.Proofs.VlogStruct
namespace CG.C02
open Verilog

/-- static tie: the grammar file and the module-extraction regex are the ones the parser model was written for -/
theorem tables_grammar : Generated.grammar = some Verilog.Expected.grammar := by rfl
theorem tables_regex_module : Generated.regex_module = some Verilog.Expected.regex_module := by rfl
theorem tables_primitive : Generated.primitive_gates = some CG.Expected.primitive_gates := by decide

/-! ### the parser implements Verilog's operator precedence -/

/-- binding strength of an expression's top operator: `?:` 0 < `|` 1 < `^ ~^` 2 < `&` 3 < `~ !` 4 < primary 5 -/
def prec : Expr → Nat
  | .mux .. => 0 | .or .. => 1 | .xor .. => 2 | .xnor .. => 2 | .and .. => 3 | .not .. => 4 | _ => 5

/-- expressions the grammar can produce at all: `?:` only at the top, never nested -/
def NoMux : Expr → Prop
  | .mux .. => False
  | .not e => NoMux e
  | .and a b | .or a b | .xor a b | .xnor a b => NoMux a ∧ NoMux b
  | _ => True
def Parsable : Expr → Prop
  | .mux c a b => NoMux c ∧ NoMux a ∧ NoMux b
  | e => NoMux e

/-- canonical token rendering: parentheses exactly where Verilog precedence (left-associative binary operators,
    unary operators applying to a primary) requires them -/
def toks (ctx : Nat) : Expr → List Tok
  | .id s => [Tok.id s]
  | .const v => [Tok.const v]
  | e@(.not a) => let body := Tok.sym "~" :: toks 5 a
      if prec e < ctx then Tok.sym "(" :: body ++ [Tok.sym ")"] else body
  | e@(.and a b) => let body := toks 3 a ++ Tok.sym "&" :: toks 4 b
      if prec e < ctx then Tok.sym "(" :: body ++ [Tok.sym ")"] else body
  | e@(.or a b) => let body := toks 1 a ++ Tok.sym "|" :: toks 2 b
      if prec e < ctx then Tok.sym "(" :: body ++ [Tok.sym ")"] else body
  | e@(.xor a b) => let body := toks 2 a ++ Tok.sym "^" :: toks 3 b
      if prec e < ctx then Tok.sym "(" :: body ++ [Tok.sym ")"] else body
  | e@(.xnor a b) => let body := toks 2 a ++ Tok.sym "~^" :: toks 3 b
      if prec e < ctx then Tok.sym "(" :: body ++ [Tok.sym ")"] else body
  | .mux c a b => toks 1 c ++ Tok.sym "?" :: toks 1 a ++ Tok.sym ":" :: toks 1 b

/-- a token that ends an expression in the grammar (`;` `,` `)`) -/
def Stops : List Tok → Prop
  | [] => True
  | Tok.sym s :: _ => s = ";" ∨ s = "," ∨ s = ")"
  | Tok.kw _ :: _ => True
  | _ => False

/-! glue: the definitions above coincide with their mirrors in `CG/Proofs/VlogParse.lean` -/
namespace Glue
theorem toks_eq (e : Expr) : ∀ ctx, toks ctx e = VP.toks ctx e := by
  induction e with
  | id s => intro ctx; rfl
  | const s => intro ctx; rfl
  | not a ih => intro ctx; simp only [toks, VP.toks, VP.paren, prec, ih, decide_eq_true_eq]
  | and a b iha ihb => intro ctx; simp only [toks, VP.toks, VP.paren, prec, iha, ihb, decide_eq_true_eq]
  | or a b iha ihb => intro ctx; simp only [toks, VP.toks, VP.paren, prec, iha, ihb, decide_eq_true_eq]
  | xor a b iha ihb => intro ctx; simp only [toks, VP.toks, VP.paren, prec, iha, ihb, decide_eq_true_eq]
  | xnor a b iha ihb => intro ctx; simp only [toks, VP.toks, VP.paren, prec, iha, ihb, decide_eq_true_eq]
  | mux c a b ihc iha ihb => intro ctx; simp only [toks, VP.toks, ihc, iha, ihb]

theorem noMux_iff (e : Expr) : NoMux e ↔ VP.NoMux e := by
  induction e with
  | id s => exact Iff.rfl
  | const s => exact Iff.rfl
  | not a ih => simpa only [NoMux, VP.NoMux] using ih
  | and a b iha ihb => simp only [NoMux, VP.NoMux, iha, ihb]
  | or a b iha ihb => simp only [NoMux, VP.NoMux, iha, ihb]
  | xor a b iha ihb => simp only [NoMux, VP.NoMux, iha, ihb]
  | xnor a b iha ihb => simp only [NoMux, VP.NoMux, iha, ihb]
  | mux c a b ihc iha ihb => exact Iff.rfl

theorem parsable {e : Expr} : Parsable e → VP.Parsable e := by
  cases e <;> simp only [Parsable, VP.Parsable, noMux_iff] <;> exact id

theorem stops : ∀ {r : List Tok}, Stops r → VP.Stops r
  | [], h => h
  | Tok.sym _ :: _, h => h
  | Tok.kw _ :: _, h => h
  | Tok.id _ :: _, h => h
  | Tok.const _ :: _, h => h
end Glue

/-- **C02 (precedence).** parsing the canonical rendering of any expression gives that expression back: the parser
    implements `~ ! > & > ^ ~^ > | > ?:` with left-associative binary operators -/
theorem parse_print (e : Expr) (hp : Parsable e) (rest : List Tok) (hr : Stops rest) :
    pExpr (toks 0 e ++ rest) = some (e, rest) := by
  rw [Glue.toks_eq]
  exact VP.parse_print e (Glue.parsable hp) rest (Glue.stops hr)

/-- redundant parentheses are transparent -/
theorem parse_parens (e : Expr) (hp : NoMux e) (rest : List Tok) (hr : Stops rest) :
    pExpr (Tok.sym "(" :: toks 0 e ++ Tok.sym ")" :: rest) = some (e, rest) := by
  rw [Glue.toks_eq]
  exact VP.parse_parens e ((Glue.noMux_iff e).1 hp) rest (Glue.stops hr)

/-! ### the transformer builds the circuit the module denotes -/

/-- Verilog value of an expression under a valuation of the nets -/
def denote (v : Val) : Expr → Bool
  | .id s => v s
  | .const c => c == "1"
  | .not e => !denote v e
  | .and a b => denote v a && denote v b
  | .or a b => denote v a || denote v b
  | .xor a b => Bool.xor (denote v a) (denote v b)
  | .xnor a b => !Bool.xor (denote v a) (denote v b)
  | .mux c a b => if denote v c then denote v a else denote v b

def exprIds : Expr → List Name
  | .id s => [s]
  | .const _ => []
  | .not e => exprIds e
  | .and a b | .or a b | .xor a b | .xnor a b => exprIds a ++ exprIds b
  | .mux c a b => exprIds c ++ exprIds a ++ exprIds b

def hasX : Expr → Bool
  | .const c => c == "x"
  | .not e => hasX e
  | .and a b | .or a b | .xor a b | .xnor a b => hasX a || hasX b
  | .mux c a b => hasX c || hasX a || hasX b
  | _ => false

/-- a name the transformer may synthesise, or one of its reserved constant names -/
def SyntheticLike (n : Name) : Prop :=
  n = "tie_0" ∨ n = "tie_1" ∨ n = "tie_x" ∨
  ∃ p ∈ ["not_", "and_", "or_", "xor_", "xnor_", "mux_n_", "mux_a0_", "mux_a1_", "mux_o_"], ∃ r, n = p ++ r

/-- a module of continuous assignments in the supported subset: every net is an input or assigned exactly once, no net
    is named like a synthetic name (NoCapture), names are acceptable to `add`, no `x` constants -/
structure AssignModule (m : Module) (ins outs : List Name) (asg : List (Name × Expr)) : Prop where
  shape : m.items = ins.map (fun i => Item.input [i]) ++ outs.map (fun o => Item.output [o]) ++ asg.map (fun a => Item.assign [a])
  ports : ∀ x, x ∈ m.ports ↔ (x ∈ ins ∨ x ∈ outs)
  defsNodup : (ins ++ asg.map (·.1)).Nodup
  outsDef : ∀ o ∈ outs, o ∈ ins ∨ o ∈ asg.map (·.1)
  uses : ∀ a ∈ asg, ∀ x ∈ exprIds a.2, x ∈ ins ∨ x ∈ asg.map (·.1)
  parsable : ∀ a ∈ asg, Parsable a.2 ∧ hasX a.2 = false
  noCapture : ∀ n, (n ∈ ins ∨ n ∈ asg.map (·.1)) → ¬ SyntheticLike n ∧ n ≠ "" ∧ Circuit.isDigit0 n = false ∧ ¬ n.toList.contains '.'

/-- every constant is one the lexer can produce (`1'b0`/`1'h0`, `1'b1`/`1'h1`, `1'bx`/`1'hx`).  `Expr.const` carries an
    arbitrary string; for any other string the transformer invents an undriven net `tie_<s>` (see
    `transform_assign_sem_needs_consts`), so the property needs this hypothesis. -/
def LexConsts : Expr → Prop
  | .const c => c = "0" ∨ c = "1" ∨ c = "x"
  | .not e => LexConsts e
  | .and a b | .or a b | .xor a b | .xnor a b => LexConsts a ∧ LexConsts b
  | .mux c a b => LexConsts c ∧ LexConsts a ∧ LexConsts b
  | _ => True

/-! glue: the definitions above coincide with their mirrors in `CG/Proofs/VlogNames.lean` / `VlogMain.lean` -/
namespace Glue
theorem denote_eq (v : Val) (e : Expr) : denote v e = VT.denote v e := by
  induction e with
  | id s => rfl
  | const s => rfl
  | not a ih => simp only [denote, VT.denote, ih]
  | and a b iha ihb => simp only [denote, VT.denote, iha, ihb]
  | or a b iha ihb => simp only [denote, VT.denote, iha, ihb]
  | xor a b iha ihb => simp only [denote, VT.denote, iha, ihb]
  | xnor a b iha ihb => simp only [denote, VT.denote, iha, ihb]
  | mux c a b ihc iha ihb => simp only [denote, VT.denote, ihc, iha, ihb]

theorem exprIds_eq (e : Expr) : exprIds e = VT.exprIds e := by
  induction e with
  | id s => rfl
  | const s => rfl
  | not a ih => simp only [exprIds, VT.exprIds, ih]
  | and a b iha ihb => simp only [exprIds, VT.exprIds, iha, ihb]
  | or a b iha ihb => simp only [exprIds, VT.exprIds, iha, ihb]
  | xor a b iha ihb => simp only [exprIds, VT.exprIds, iha, ihb]
  | xnor a b iha ihb => simp only [exprIds, VT.exprIds, iha, ihb]
  | mux c a b ihc iha ihb => simp only [exprIds, VT.exprIds, ihc, iha, ihb]

theorem binConsts (e : Expr) : LexConsts e → hasX e = false → VT.BinConsts e := by
  induction e with
  | id s => intro _ _; trivial
  | const s =>
    intro h hx
    simp only [hasX, beq_eq_false_iff_ne, ne_eq] at hx
    rcases h with h | h | h
    · exact Or.inl h
    · exact Or.inr h
    · exact absurd h hx
  | not a ih => intro h hx; exact ih h hx
  | and a b iha ihb =>
    intro h hx; simp only [hasX, Bool.or_eq_false_iff] at hx; exact ⟨iha h.1 hx.1, ihb h.2 hx.2⟩
  | or a b iha ihb =>
    intro h hx; simp only [hasX, Bool.or_eq_false_iff] at hx; exact ⟨iha h.1 hx.1, ihb h.2 hx.2⟩
  | xor a b iha ihb =>
    intro h hx; simp only [hasX, Bool.or_eq_false_iff] at hx; exact ⟨iha h.1 hx.1, ihb h.2 hx.2⟩
  | xnor a b iha ihb =>
    intro h hx; simp only [hasX, Bool.or_eq_false_iff] at hx; exact ⟨iha h.1 hx.1, ihb h.2 hx.2⟩
  | mux c a b ihc iha ihb =>
    intro h hx
    simp only [hasX, Bool.or_eq_false_iff] at hx
    exact ⟨ihc h.1 hx.1.1, iha h.2.1 hx.1.2, ihb h.2.2 hx.2⟩

theorem syntheticLike_iff (n : Name) :
    SyntheticLike n ↔ (n = "tie_0" ∨ n = "tie_1" ∨ n = "tie_x" ∨ VT.IsSyn n) := Iff.rfl

theorem not_syntheticLike {n : Name} (h1 : n ≠ "tie_0") (h2 : n ≠ "tie_1") (h3 : n ≠ "tie_x") (h4 : VT.isSynB n = false) :
    ¬ SyntheticLike n := by
  rintro (h | h | h | h)
  · exact h1 h
  · exact h2 h
  · exact h3 h
  · exact VT.not_syn_of h4 h

theorem modOK {m : Module} {ins outs : List Name} {asg : List (Name × Expr)} (hm : AssignModule m ins outs asg)
    (hconst : ∀ a ∈ asg, LexConsts a.2) : VT.ModOK m ins outs asg where
  shape := hm.shape
  ports := hm.ports
  defsNodup := hm.defsNodup
  outsDef := hm.outsDef
  uses := fun a ha x hx => hm.uses a ha x (by rw [exprIds_eq]; exact hx)
  consts := fun a ha => binConsts a.2 (hconst a ha) (hm.parsable a ha).2
  noCapture := fun n hn => by
    obtain ⟨h1, h2, h3, _⟩ := hm.noCapture n hn
    refine ⟨fun h => h1 (Or.inr (Or.inr (Or.inr h))), ⟨fun h => h1 (Or.inl h), fun h => h1 (Or.inr (Or.inl h)),
      fun h => h1 (Or.inr (Or.inr (Or.inl h)))⟩, h3, ?_⟩
    cases he : n.isEmpty with
    | false => rfl
    | true => exact absurd (String.isEmpty_iff.mp he) h2
end Glue

/-- **C02 (assignments).** for every module of continuous assignments in the subset — any nesting, any order of the
    assignments (use before definition), repeated sub-expressions — the transformer succeeds, the circuit's inputs and
    outputs are exactly the declared ports, and in every consistent valuation each assigned net carries the value
    Verilog semantics gives its right-hand side -/
theorem transform_assign_sem (m : Module) (ins outs : List Name) (asg : List (Name × Expr)) (ord : Ord) (hord : OrdOK ord)
    (hm : AssignModule m ins outs asg) (hconst : ∀ a ∈ asg, LexConsts a.2) :
    ∃ c, transform m [] ord = .ok c ∧ c.name = m.name ∧
      (∀ x, x ∈ c.inputs ↔ x ∈ ins) ∧ (∀ x, x ∈ c.outputs ↔ x ∈ outs) ∧
      ∀ v, Consistent c v → ∀ a ∈ asg, v a.1 = denote v a.2 := by
  have _ := hord
  obtain ⟨c, h1, h2, h3, h4, h5⟩ := VT.transform_ok (Glue.modOK hm hconst) [] ord
  refine ⟨c, h1, h2, h3, h4, fun v hv a ha => ?_⟩
  rw [Glue.denote_eq]
  exact h5 v hv a ha

/-- the hypothesis `hconst` cannot be dropped: `assign p = <const "2">` satisfies `AssignModule`, the transformer
    succeeds, and the resulting circuit has a consistent valuation in which `p` differs from the Verilog value -/
theorem transform_assign_sem_needs_consts :
    ∃ (m : Module) (ins outs : List Name) (asg : List (Name × Expr)) (c : Circuit) (v : Val),
      AssignModule m ins outs asg ∧ transform m [] id = .ok c ∧ Consistent c v ∧ ∃ a ∈ asg, v a.1 ≠ denote v a.2 := by
  refine ⟨{ name := "m", ports := ["p"], items := [Item.output ["p"], Item.assign [("p", .const "2")]] }, [], ["p"],
    [("p", .const "2")], _, fun n => n == "p" || n == "tie_2", ?_, rfl, ?_, ("p", .const "2"), by simp, by decide⟩
  · refine ⟨rfl, by simp, by decide, by decide, by decide, ?_, ?_⟩
    · intro a ha
      simp only [List.mem_singleton] at ha
      subst ha
      exact ⟨trivial, rfl⟩
    · intro n hn
      simp only [List.not_mem_nil, List.map_cons, List.map_nil, List.mem_singleton, false_or] at hn
      subst hn
      exact ⟨Glue.not_syntheticLike (by decide) (by decide) (by decide) (by decide), by decide, by decide, by decide⟩
  · exact VT.consistentB_sound _ _ (by decide)

/-- **C02 (ports).** a port list that disagrees with the declarations is rejected with an error, never silently
    accepted: an undeclared port, or a declared input/output missing from the port list -/
theorem ports_checked (m : Module) (bbs : List BBox) (ord : Ord)
    (declIn declOut : List Name)
    (hin : declIn = m.items.flatMap (fun it => match it with | .input ns => ns | _ => []))
    (hout : declOut = m.items.flatMap (fun it => match it with | .output ns => ns | _ => []))
    (hbad : (∃ p ∈ m.ports, p ∉ declIn ∧ p ∉ declOut) ∨ (∃ d ∈ declIn ++ declOut, d ∉ m.ports)) :
    ∀ c, transform m bbs ord ≠ .ok c := by
  subst hin hout
  exact VT.ports_checked m bbs ord hbad

/-- the lexer never fails on text made of the dialect's tokens separated by blanks, and comments/blank space are
    skipped: lexing is invariant under inserting white space between tokens -/
theorem lex_ws_irrelevant (a b : String) (ws : String) (hws : ∀ ch ∈ ws.toList, isWs ch = true) (hne : ws ≠ "")
    (ta tb : List Tok) (ha : lex (a ++ " ") = some ta) (hb : lex (" " ++ b) = some tb) :
    lex (a ++ " " ++ ws ++ " " ++ b) = some (ta ++ tb) := by
  have _ := hne
  exact VL.lex_ws a b ws hws ta tb ha hb

/-! non-vacuity -/
def exE : Expr := .mux (.or (.id "s") (.and (.id "a") (.not (.id "b")))) (.xnor (.id "a") (.xor (.id "b") (.id "c"))) (.const "1")
example : pExpr (toks 0 exE ++ [Tok.sym ";"]) = some (exE, [Tok.sym ";"]) := by decide
def exM : Module :=
  { name := "m", ports := ["a", "b", "o", "p"],
    items := [Item.input ["a"], Item.input ["b"], Item.output ["o"], Item.output ["p"],
              Item.assign [("o", .xor (.id "w") (.and (.id "a") (.id "b")))], Item.assign [("w", .not (.id "a"))],
              Item.assign [("p", .mux (.id "a") (.id "w") (.const "0"))]] }
example : (transform exM [] id).toOption.map (fun c => c.nodes.length) = some 10 := by decide
example : AssignModule exM ["a", "b"] ["o", "p"] [("o", .xor (.id "w") (.and (.id "a") (.id "b"))), ("w", .not (.id "a")),
    ("p", .mux (.id "a") (.id "w") (.const "0"))] := by
  refine ⟨rfl, ?_, by decide, by decide, by decide, ?_, ?_⟩
  · intro x
    simp only [exM, List.mem_cons, List.not_mem_nil, or_false]
    constructor
    · rintro (h | h | h | h)
      · exact Or.inl (Or.inl h)
      · exact Or.inl (Or.inr h)
      · exact Or.inr (Or.inl h)
      · exact Or.inr (Or.inr h)
    · rintro ((h | h) | h | h)
      · exact Or.inl h
      · exact Or.inr (Or.inl h)
      · exact Or.inr (Or.inr (Or.inl h))
      · exact Or.inr (Or.inr (Or.inr h))
  · intro a ha
    simp only [List.mem_cons, List.not_mem_nil, or_false] at ha
    rcases ha with rfl | rfl | rfl
    · exact ⟨⟨trivial, trivial, trivial⟩, rfl⟩
    · exact ⟨trivial, rfl⟩
    · exact ⟨⟨trivial, trivial, trivial⟩, rfl⟩
  · intro n hn
    simp only [List.mem_cons, List.not_mem_nil, or_false, List.map_cons, List.map_nil] at hn
    rcases hn with (rfl | rfl) | rfl | rfl | rfl <;>
      exact ⟨Glue.not_syntheticLike (by decide) (by decide) (by decide) (by decide), by decide, by decide, by decide⟩
example : ∀ a ∈ [("o", Expr.xor (.id "w") (.and (.id "a") (.id "b"))), ("w", Expr.not (.id "a")),
    ("p", Expr.mux (.id "a") (.id "w") (.const "0"))], LexConsts a.2 := by
  intro a ha
  simp only [List.mem_cons, List.not_mem_nil, or_false] at ha
  rcases ha with rfl | rfl | rfl
  · exact ⟨trivial, trivial, trivial⟩
  · exact trivial
  · exact ⟨trivial, trivial, Or.inl rfl⟩

/-! ### structural netlists: primitive instances, net/constant assigns and blackbox instances, in any order

The structural subset shared with the fast parser (`C14.RMod`: operands are nets or 1-bit constants).  The theorem is
about the same `Verilog.transform` as above; `C14.Restricted` spells the subset out (every net an input or driven
exactly once, every net read is driven, unary gates have one operand, named ports of a known blackbox). -/

/-- the node an operand denotes in the parsed circuit, and its value -/
def opNode : C14.ROp → Name
  | .net n => n
  | .c0 => "tie_0"
  | .c1 => "tie_1"
def opVal (v : Val) : C14.ROp → Bool
  | .net n => v n
  | .c0 => false
  | .c1 => true

/-- Verilog semantics of a primitive gate over its operand list (operands may repeat) -/
def primFn (ty : String) (ins : List Bool) : Bool :=
  if ty = "and" then ins.all id else if ty = "nand" then !ins.all id
  else if ty = "or" then ins.any id else if ty = "nor" then !ins.any id
  else if ty = "xor" then xorL ins else if ty = "xnor" then !xorL ins
  else if ty = "not" then !(ins.headD false) else ins.headD false

/-! glue: the definitions above coincide with their mirrors in `CG/Proofs/VlogStructB.lean` -/
namespace Glue
theorem opNode_eq (o : C14.ROp) : opNode o = (C14.Glue.op o).nm "tie_0" "tie_1" := by cases o <;> rfl
theorem opVal_eq (v : Val) (o : C14.ROp) : opVal v o = VS.opVal v (C14.Glue.op o) := by cases o <;> rfl
theorem primFn_eq : primFn = VS.primFn := rfl
theorem lookup_op (pins : List (Name × Option C14.ROp)) (g : Name) :
    (pins.map (fun p => (p.1, p.2.map C14.Glue.op))).lookup g = (pins.lookup g).map (Option.map C14.Glue.op) :=
  VS.lookup_map_snd _ pins g
theorem pin_list (pins : List (Name × Option C14.ROp)) (g : Name) :
    (match (pins.map (fun p => (p.1, p.2.map C14.Glue.op))).lookup g with
      | some (some o) => [o.nm "tie_0" "tie_1"] | _ => []) =
    (match pins.lookup g with | some (some o) => [opNode o] | _ => []) := by
  rw [lookup_op]
  cases pins.lookup g with
  | none => rfl
  | some x =>
    cases x with
    | none => rfl
    | some o => simp only [Option.map_some, opNode_eq]
end Glue

/-- **C02 (structural netlists).** for every netlist of the structural subset — any gate mix and arity, constants and
    repeated operands, any order of declarations, instances and assigns (use before definition), blackbox instances with
    connected, unconnected or omitted pins — the parser succeeds, inputs and outputs are exactly the declared ones, every
    gate output and assigned net computes the value Verilog semantics gives it in every consistent valuation, and every
    blackbox instance is present with each pin attached to exactly the net named in the instantiation -/
theorem transform_struct_sem (r : C14.RMod) (bbs : List BBox) (ord : Ord) (hord : OrdOK ord) (h : C14.Restricted r bbs) :
    ∃ c, transform r.toModule bbs ord = .ok c ∧ c.name = r.name ∧
      (∀ x, x ∈ c.inputs ↔ x ∈ r.inputs) ∧ (∀ x, x ∈ c.outputs ↔ x ∈ r.outputs) ∧
      (∀ ty inst out ops, C14.RStmt.gate ty inst out ops ∈ r.stmts →
          ∀ v, Consistent c v → v out = primFn ty (ops.map (opVal v))) ∧
      (∀ l rhs, C14.RStmt.assign l rhs ∈ r.stmts → ∀ v, Consistent c v → v l = opVal v rhs) ∧
      (∀ ty inst pins, C14.RStmt.bb ty inst pins ∈ r.stmts →
          ∃ d, bbs.find? (fun b => b.name == ty) = some d ∧ (inst, d) ∈ c.bbs ∧
            (∀ g ∈ d.ins, c.ty? (inst ++ "." ++ g) = some "bb_input" ∧
                c.fanin (inst ++ "." ++ g) = (match pins.lookup g with | some (some o) => [opNode o] | _ => [])) ∧
            (∀ g ∈ d.outs, c.ty? (inst ++ "." ++ g) = some "bb_output" ∧
                c.fanout (inst ++ "." ++ g) = (match pins.lookup g with | some (some o) => [opNode o] | _ => []))) := by
  obtain ⟨cv, hv, sv⟩ := FV.full_spec (C14.Glue.restricted h) ord hord
  rw [C14.Glue.toModule] at hv
  have hr := C14.Glue.restricted h
  refine ⟨cv, hv, sv.name, fun x => FV.spec_inputs hr sv x, fun x => FV.spec_outputs hr sv x, ?_, ?_, ?_⟩
  · intro ty inst out ops hm v hc
    have hm' : FV.RStmt.gate ty inst out (ops.map C14.Glue.op) ∈ (C14.Glue.mod r).stmts :=
      List.mem_map.2 ⟨_, hm, rfl⟩
    have hg := VS.gate_sem hr sv hm' v hc
    rw [List.map_map] at hg
    rw [hg, Glue.primFn_eq]
    congr 1
    exact List.map_congr_left (fun o _ => (Glue.opVal_eq v o).symm)
  · intro l rhs hm v hc
    have hm' : FV.RStmt.assign l (C14.Glue.op rhs) ∈ (C14.Glue.mod r).stmts := List.mem_map.2 ⟨_, hm, rfl⟩
    rw [Glue.opVal_eq]
    exact VS.assign_sem hr sv hm' v hc
  · intro ty inst pins hm
    have hm' : FV.RStmt.bb ty inst (pins.map (fun p => (p.1, p.2.map C14.Glue.op))) ∈ (C14.Glue.mod r).stmts :=
      List.mem_map.2 ⟨_, hm, rfl⟩
    obtain ⟨d, hd, hreg, hins, houts⟩ := VS.bb_struct hr sv hm'
    refine ⟨d, hd, hreg, fun g hg => ?_, fun g hg => ?_⟩
    · obtain ⟨h1, h2⟩ := hins g hg
      exact ⟨h1, h2.trans (Glue.pin_list pins g)⟩
    · obtain ⟨h1, h2⟩ := houts g hg
      exact ⟨h1, h2.trans (Glue.pin_list pins g)⟩

/-- non-vacuity: the example netlist of C14 (a nand over a net defined later, an input and a constant; a flop with an
    unconnected clock; an assign) -/
example : (transform C14.ex.toModule [C14.exBB] id).toOption.map (fun c => (c.fanin "u.d", c.fanin "u.clk", c.fanout "u.q")) =
    some (["o"], [], ["q"]) := by decide +kernel

end CG.C02
