/-
  C04 — the miter output is 1 exactly when the compared circuits differ.
  Property theorems only; helper lemmas live in CG/Proofs/Miter*.lean.
-/
import CG.Tx
import CG.Spec
import CG.Sat
import CG.Props.C01
import CG.Props.C06
import CG.Proofs.Miter
set_option linter.unusedVariables false
namespace CG.C04
open CG.Miter

/-- the circuits the statement ranges over: lint-clean and blackbox-free -/
structure Good (c : Circuit) : Prop where
  clean : LintClean c
  nobb : c.bbs = []

/-- tied startpoints / compared endpoints are shared by both circuits -/
structure Shared (c0 c1 : Circuit) (sp ep : List Name) : Prop where
  spNodup : sp.Nodup
  epNodup : ep.Nodup
  sp0 : ∀ s ∈ sp, s ∈ c0.inputs ∧ s ∈ c1.inputs
  ep0 : ∀ e ∈ ep, c0.has e = true ∧ c1.has e = true

/-- omitting `c1` is mitering `c0` with itself; omitted startpoints/endpoints are the shared ones -/
theorem miter_self (c0 : Circuit) (sp? ep? : Option (List Name)) (ord : Ord) :
    Tx.miter c0 none sp? ep? ord = Tx.miter c0 (some c0) sp? ep? ord := by
  unfold Tx.miter
  by_cases hb : c0.bbs.isEmpty = true
  · simp only [hb, Bool.not_true, Bool.and_false, Bool.false_eq_true, if_false, ite_self]
  · simp only [hb, Bool.not_false, if_true]

theorem miter_defaults (c0 c1 : Circuit) (ord : Ord) (hord : OrdOK ord) (hne : c1.nodes ≠ []) :
    Tx.miter c0 (some c1) none none ord =
      Tx.miter c0 (some c1) (some (ord (Tx.inter c0.startpointsAll c1.startpointsAll)))
        (some (ord (Tx.inter c0.endpointsAll c1.endpointsAll))) ord := by
  have h1 : c1.nodes.isEmpty = false := by
    cases h : c1.nodes with
    | nil => exact absurd h hne
    | cons a l => rfl
  unfold Tx.miter
  simp only [h1, Bool.false_eq_true, if_false]

/-- circuits with blackboxes are rejected -/
theorem miter_rejects_blackboxes (c0 c1 : Circuit) (sp? ep? : Option (List Name)) (ord : Ord)
    (h : c0.bbs ≠ [] ∨ (c1.nodes ≠ [] ∧ c1.bbs ≠ [])) :
    Tx.miter c0 (some c1) sp? ep? ord = .error .valueError := by
  unfold Tx.miter
  by_cases hb : c0.bbs.isEmpty = true
  · rcases h with h | ⟨h1, h2⟩
    · exact absurd (List.isEmpty_iff.1 hb) h
    · have e1 : c1.nodes.isEmpty = false := by
        cases h : c1.nodes with
        | nil => exact absurd h h1
        | cons a l => rfl
      have e2 : c1.bbs.isEmpty = false := by
        cases h : c1.bbs with
        | nil => exact absurd h h2
        | cons a l => rfl
      simp only [hb, e1, e2, Bool.not_true, Bool.not_false, Bool.and_true, Bool.false_eq_true, if_false, if_true]
  · simp only [hb, Bool.not_false, if_true]

/-- **C04.** for every valuation consistent with the miter: the two prefixed copies carry consistent valuations of
    `c0` and `c1`, the tied startpoints feed both copies, and `sat` is 1 exactly when some compared endpoint takes
    different values in the two copies; the miter's inputs are exactly the tied startpoints -/
theorem miter_sem (c0 c1 m : Circuit) (sp ep : List Name) (ord : Ord) (hord : OrdOK ord)
    (h0 : Good c0) (h1 : Good c1) (hne : c1.nodes ≠ []) (hs : Shared c0 c1 sp ep)
    (h : Tx.miter c0 (some c1) (some sp) (some ep) ord = .ok m) :
    (∀ v, Consistent m v →
        Consistent c0 (fun n => v ("c0_" ++ n)) ∧ Consistent c1 (fun n => v ("c1_" ++ n)) ∧
        (∀ s ∈ sp, v ("c0_" ++ s) = v s ∧ v ("c1_" ++ s) = v s) ∧
        (v "sat" = true ↔ ∃ e ∈ ep, v ("c0_" ++ e) ≠ v ("c1_" ++ e))) ∧
    (∀ x, x ∈ m.inputs ↔ x ∈ sp) ∧ m.outputs = ["sat"] := by
  have V := mview_of_ok h0.clean h1.clean h0.nobb h1.nobb hne h
  have w0 := h0.clean.toWF
  have w1 := h1.clean.toWF
  have hin0 : ∀ s ∈ sp, s ∈ c0.inputs := fun s hs' => (hs.sp0 s hs').1
  have hin1 : ∀ s ∈ sp, s ∈ c1.inputs := fun s hs' => (hs.sp0 s hs').2
  refine ⟨fun v hv => ⟨?_, ?_, ?_, ?_⟩, V.inputs, V.outputs⟩
  · have := V.sem_c0 w0 hs.spNodup hin0 v hv
    simpa only [pref_c0] using this
  · have := V.sem_c1 w1 hs.spNodup hin1 v hv
    simpa only [pref_c1] using this
  · intro s hs'
    have a := V.sem_tie0 w0 hs.spNodup hs' (hin0 s hs') (noFanin_inputs h0.clean s (hin0 s hs')) v hv
    have b := V.sem_tie1 w1 hs.spNodup hs' (hin1 s hs') (noFanin_inputs h1.clean s (hin1 s hs')) v hv
    rw [pref_c0] at a
    rw [pref_c1] at b
    exact ⟨a, b⟩
  · have := V.sem_sat hs.epNodup v hv
    simpa only [pref_c0, pref_c1] using this

/-- untied startpoints of each copy are independent free signals: every pair of consistent valuations of the two
    circuits that agree on the tied startpoints arises from a consistent valuation of the miter -/
theorem miter_complete (c0 c1 m : Circuit) (sp ep : List Name) (ord : Ord) (hord : OrdOK ord)
    (h0 : Good c0) (h1 : Good c1) (hne : c1.nodes ≠ []) (hs : Shared c0 c1 sp ep)
    (h : Tx.miter c0 (some c1) (some sp) (some ep) ord = .ok m)
    (v0 v1 : Val) (hv0 : Consistent c0 v0) (hv1 : Consistent c1 v1) (hag : ∀ s ∈ sp, v0 s = v1 s) :
    ∃ v, Consistent m v ∧ (∀ n, c0.has n = true → v ("c0_" ++ n) = v0 n) ∧
      (∀ n, c1.has n = true → v ("c1_" ++ n) = v1 n) ∧ (∀ s ∈ sp, v s = v0 s) := by
  have V := mview_of_ok h0.clean h1.clean h0.nobb h1.nobb hne h
  refine ⟨mval c0 c1 sp ep v0 v1, ?_, ?_, ?_, ?_⟩
  · exact V.complete' h0.clean.toWF h1.clean.toWF hs.spNodup hs.epNodup (fun s hs' => (hs.sp0 s hs').1)
      (fun s hs' => (hs.sp0 s hs').2) (noFanin_inputs h0.clean) (noFanin_inputs h1.clean) hs.ep0 v0 v1 hv0 hv1 hag
  · intro n hn
    rw [← pref_c0]
    exact V.mval_c0 v0 v1 hn
  · intro n hn
    rw [← pref_c1]
    exact V.mval_c1 v0 v1 hn
  · intro s hs'
    exact V.mval_tie v0 v1 hs'

/-- consequently, with any sound and complete solver, `solve(miter, {sat: True})` is False if and only if the two
    circuits agree on every compared endpoint for all valuations that agree on the tied startpoints -/
theorem miter_unsat_iff_equiv (s : Solver) (hss : SolverSpec s) (c0 c1 m : Circuit) (sp ep : List Name) (ord : Ord)
    (hord : OrdOK ord) (h0 : Good c0) (h1 : Good c1) (hne : c1.nodes ≠ []) (hs : Shared c0 c1 sp ep)
    (hx : ∀ p ∈ c0.nodes ++ c1.nodes, p.2.ty ≠ some "x")
    (h : Tx.miter c0 (some c1) (some sp) (some ep) ord = .ok m) :
    solve s m ord [("sat", true)] = .ok none ↔
      ∀ v0 v1, Consistent c0 v0 → Consistent c1 v1 → (∀ x ∈ sp, v0 x = v1 x) → ∀ e ∈ ep, v0 e = v1 e := by
  have V := mview_of_ok h0.clean h1.clean h0.nobb h1.nobb hne h
  have hclean : C01.Clean m := V.clean' h0.clean h1.clean hs.spNodup hs.epNodup (fun s hs' => (hs.sp0 s hs').1)
    (fun s hs' => (hs.sp0 s hs').2) (fun p hp => hx p (List.mem_append.2 (Or.inl hp)))
    (fun p hp => hx p (List.mem_append.2 (Or.inr hp)))
  have hin : ∀ p ∈ [("sat", true)], m.has p.1 = true := by
    intro p hp
    simp only [List.mem_singleton] at hp
    subst hp
    exact V.has_sat
  have S := (C01.solve_spec s hss m ord hord hclean [("sat", true)] hin).1
  obtain ⟨sem, _, _⟩ := miter_sem c0 c1 m sp ep ord hord h0 h1 hne hs h
  rw [S]
  constructor
  · intro hno v0 v1 hv0 hv1 hag e he
    obtain ⟨v, hv, a0, a1, _⟩ := miter_complete c0 c1 m sp ep ord hord h0 h1 hne hs h v0 v1 hv0 hv1 hag
    apply Classical.byContradiction
    intro hd
    apply hno
    refine ⟨v, hv, ?_⟩
    intro p hp
    simp only [List.mem_singleton] at hp
    subst hp
    apply (sem v hv).2.2.2.2
    refine ⟨e, he, ?_⟩
    rw [a0 e (hs.ep0 e he).1, a1 e (hs.ep0 e he).2]
    exact hd
  · rintro heq ⟨v, hv, hsat⟩
    obtain ⟨k0, k1, kt, ks⟩ := sem v hv
    obtain ⟨e, he, hd⟩ := ks.1 (hsat ("sat", true) (by simp))
    apply hd
    apply heq _ _ k0 k1 _ e he
    intro x hx'
    rw [(kt x hx').1, (kt x hx').2]

/-- with an explicitly empty endpoint list nothing is compared: `sat` is a constant `"0"` without fan-in, hence 0 in
    every consistent valuation (the miter is unsatisfiable under `sat = 1`) -/
theorem miter_empty_endpoints (c0 c1 m : Circuit) (sp : List Name) (ord : Ord)
    (h0 : Good c0) (h1 : Good c1) (hne : c1.nodes ≠ [])
    (h : Tx.miter c0 (some c1) (some sp) (some []) ord = .ok m) :
    m.ty? "sat" = some "0" ∧ m.fanin "sat" = [] ∧ ∀ v, Consistent m v → v "sat" = false := by
  have V := mview_of_ok h0.clean h1.clean h0.nobb h1.nobb hne h
  refine ⟨ty?_of_mem V.wf.nodup V.mem_sat rfl, ?_, fun v hv => ?_⟩
  · rw [V.fanin_sat]; rfl
  · apply hv _ V.mem_sat "0" rfl
    unfold gateFn
    simp

/-- the miter is built (no ValueError) whenever the synthesised names do not collide: no tied startpoint is called
    `sat` or carries a `c0_`/`c1_`/`dif_` prefix that meets a copied node or a comparator.
    An empty `sp` / `ep` is an explicit choice (nothing tied / nothing compared, K51 repair), so no non-emptiness
    hypothesis is needed any more.
    ADDED hypothesis (the statement without it is false, `CG/Proofs/MiterCex.lean`):
    `hept` — no compared endpoint is a blackbox pin node (`connect` refuses `bb_input` as a driver and lets a
      `bb_output` drive only a `buf`, so the `xor` comparator cannot be attached). -/
theorem miter_ok (c0 c1 : Circuit) (sp ep : List Name) (ord : Ord) (hord : OrdOK ord)
    (h0 : Good c0) (h1 : Good c1) (hne : c1.nodes ≠ []) (hs : Shared c0 c1 sp ep)
    (hnames : ∀ p ∈ c0.nodes ++ c1.nodes, p.1 ≠ "" ∧ Circuit.isDigit0 p.1 = false)
    (hclash : ∀ s ∈ sp, s ≠ "sat" ∧ (∀ n, s ≠ "c0_" ++ n) ∧ (∀ n, s ≠ "c1_" ++ n) ∧ (∀ n, s ≠ "dif_" ++ n))
    (hept : ∀ e ∈ ep, ∀ t, (c0.ty? e = some t ∨ c1.ty? e = some t) → t ≠ "bb_input" ∧ t ≠ "bb_output") :
    ∃ m, Tx.miter c0 (some c1) (some sp) (some ep) ord = .ok m := by
  apply miter_ok_pref ord _ h0.nobb h1.nobb hne
  refine ⟨h0.clean, h1.clean, hs.spNodup, hs.epNodup, hs.sp0, hs.ep0, ?_, ?_, hept⟩
  · intro s hs'
    obtain ⟨a, ha⟩ := has_exists (mem_inputs_has (hs.sp0 s hs').1)
    have := hnames (s, a) (List.mem_append.2 (Or.inl ha))
    refine ⟨this.2, ?_⟩
    cases he : s.isEmpty with
    | false => rfl
    | true => exact absurd (String.isEmpty_iff.1 he) this.1
  · intro s hs'
    obtain ⟨k1, k2, k3, k4⟩ := hclash s hs'
    refine ⟨k1, fun n => ?_, fun n => ?_, k4⟩
    · rw [pref_c0]; exact k2 n
    · rw [pref_c1]; exact k3 n

/-! non-vacuity: an and-gate against a nand-gate, tied on `a` only -/
def cA : Circuit :=
  { nodes := [("a", { ty := some "input", out := some false }), ("b", { ty := some "input", out := some false }),
              ("o", { ty := some "and", out := some true })], edges := [("a", "o"), ("b", "o")] }
def cB : Circuit :=
  { nodes := [("a", { ty := some "input", out := some false }), ("b", { ty := some "input", out := some false }),
              ("o", { ty := some "nand", out := some true })], edges := [("a", "o"), ("b", "o")] }
example : (Tx.miter cA (some cB) (some ["a"]) (some ["o"]) id).toOption.map (fun m => m.nodes.length) = some 9 := by decide
example : Good cA ∧ Good cB ∧ Shared cA cB ["a"] ["o"] := by
  refine ⟨⟨?_, rfl⟩, ⟨?_, rfl⟩, ⟨by decide, by decide, by decide, by decide⟩⟩
  · exact Limit.lintClean_of_checks cA ⟨by decide, by decide, by decide⟩ (by decide) (by decide) (by decide)
  · exact Limit.lintClean_of_checks cB ⟨by decide, by decide, by decide⟩ (by decide) (by decide) (by decide)

/-- the added hypothesis `hept` of `miter_ok` holds for the example -/
example : ∀ e ∈ ["o"], ∀ t, (cA.ty? e = some t ∨ cB.ty? e = some t) → t ≠ "bb_input" ∧ t ≠ "bb_output" := by
  intro e he t h
  simp only [List.mem_singleton] at he
  subst he
  have hA : cA.ty? "o" = some "and" := by decide
  have hB : cB.ty? "o" = some "nand" := by decide
  rw [hA, hB] at h
  rcases h with h | h <;> (injection h with h; subst h; decide)


/-! non-vacuity of the repaired cases: an explicitly EMPTY startpoint list (nothing tied: the inputs of the two copies
    are independent, the miter has no inputs) and an explicitly EMPTY endpoint list (nothing compared) -/
theorem cA_good : Good cA :=
  ⟨Limit.lintClean_of_checks cA ⟨by decide, by decide, by decide⟩ (by decide) (by decide) (by decide), rfl⟩
theorem cB_good : Good cB :=
  ⟨Limit.lintClean_of_checks cB ⟨by decide, by decide, by decide⟩ (by decide) (by decide) (by decide), rfl⟩

example : (Tx.miter cA (some cB) (some []) (some ["o"]) id).toOption.map (fun m => (m.nodes.length, m.inputs)) =
    some (8, []) := by decide
example : (Tx.miter cA (some cB) (some ["a"]) (some []) id).toOption.map (fun m => (m.nodes.length, m.ty? "sat")) =
    some (8, some "0") := by decide

/-- `miter_ok` and `miter_sem` instantiated with `sp = []` -/
example : ∃ m, Tx.miter cA (some cB) (some []) (some ["o"]) id = .ok m ∧
    (∀ v, Consistent m v →
        Consistent cA (fun n => v ("c0_" ++ n)) ∧ Consistent cB (fun n => v ("c1_" ++ n)) ∧
        (v "sat" = true ↔ ∃ e ∈ ["o"], v ("c0_" ++ e) ≠ v ("c1_" ++ e))) ∧
    (∀ x, x ∉ m.inputs) ∧ m.outputs = ["sat"] := by
  have hS : Shared cA cB [] ["o"] := ⟨by decide, by decide, by decide, by decide⟩
  have hord : OrdOK id := fun l => List.Perm.refl l
  obtain ⟨m, hm⟩ := miter_ok cA cB [] ["o"] id hord cA_good cB_good (by decide) hS (by decide)
    (fun s hs => by cases hs)
    (by
      intro e he t h
      simp only [List.mem_singleton] at he
      subst he
      have hA : cA.ty? "o" = some "and" := by decide
      have hB : cB.ty? "o" = some "nand" := by decide
      rw [hA, hB] at h
      rcases h with h | h <;> (injection h with h; subst h; decide))
  obtain ⟨sem, hin, hout⟩ := miter_sem cA cB m [] ["o"] id hord cA_good cB_good (by decide) hS hm
  refine ⟨m, hm, fun v hv => ?_, fun x hx => ?_, hout⟩
  · obtain ⟨k0, k1, _, ks⟩ := sem v hv
    exact ⟨k0, k1, ks⟩
  · have := (hin x).1 hx
    cases this

/-- `miter_ok`, `miter_sem`, `miter_empty_endpoints` and `miter_unsat_iff_equiv` instantiated with `ep = []` -/
example (s : Solver) (hss : SolverSpec s) : ∃ m, Tx.miter cA (some cB) (some ["a"]) (some []) id = .ok m ∧
    (∀ v, Consistent m v → v "sat" = false) ∧ solve s m id [("sat", true)] = .ok none := by
  have hS : Shared cA cB ["a"] [] := ⟨by decide, by decide, by decide, by decide⟩
  have hord : OrdOK id := fun l => List.Perm.refl l
  obtain ⟨m, hm⟩ := miter_ok cA cB ["a"] [] id hord cA_good cB_good (by decide) hS (by decide)
    (by
      intro s hs
      simp only [List.mem_singleton] at hs
      subst hs
      refine ⟨by decide, fun n e => ?_, fun n e => ?_, fun n e => ?_⟩ <;>
      · have := congrArg String.toList e
        rw [String.toList_append] at this
        simp at this)
    (fun e he => by cases he)
  refine ⟨m, hm, (miter_empty_endpoints cA cB m ["a"] id cA_good cB_good (by decide) hm).2.2, ?_⟩
  rw [miter_unsat_iff_equiv s hss cA cB m ["a"] [] id hord cA_good cB_good (by decide) hS (by decide) hm]
  intro v0 v1 _ _ _ e he
  cases he

end CG.C04
