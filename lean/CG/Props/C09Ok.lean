/-
  C09 (continued) — total correctness of tx.unroll: exactly when the call succeeds (`unroll_ok_iff`).  Property theorems only;
  helper lemmas in CG/Proofs/UnrollOk*.lean.
-/
import CG.Props.C09
import CG.Proofs.UnrollOkNames
import CG.Proofs.UnrollOkNec
namespace CG.C09

/-- names the construction API accepts (non-empty, not starting with a digit) -/
def AddableNames (c : Circuit) : Prop := ∀ p ∈ c.nodes, p.1 ≠ "" ∧ Circuit.isDigit0 p.1 = false

/-- no node of the circuit is named like a per-step copy of another node (`unrolled_<t>_<node>`); the per-step io names
    `<io>_<prefix>_<t>` are uniquified against the circuit itself but not against the copies that are spliced in later -/
def NoStepClash (c : Circuit) (pfx : String) : Prop :=
  ∀ x ∈ c.io, ∀ t : Nat, ∀ y, c.has y = true → ∀ k : Nat,
    x ++ "_" ++ pfx ++ "_" ++ toString t ≠ "unrolled_" ++ toString k ++ "_" ++ y

/-! The first formulation of `unroll_ok` (hypotheses as I had guessed them) is FALSE and has been removed from this file; its
    refutation and the corrected statements follow. -/

/-! ### corrected versions of `unroll_ok` -/

/-- the name `unroll` gives to the io node it creates for `x` at step `t`: `<x>_<pfx>_<t>`, made unique against the
    nodes of `c` by `uid` (suffixes `_0`, `_1`, …).  For a successful call this is `Tx.ioName ioMap x t`. -/
def stepName (c : Circuit) (pfx : String) (x : Name) (t : Nat) : Name :=
  (c.uid (x ++ "_" ++ pfx ++ "_" ++ toString t)).getD ""

/-- the naming side conditions of `unroll c n _ pfx`, phrased on the names that are really used -/
structure StepNamesOK (c : Circuit) (pfx : String) (n : Nat) : Prop where
  /-- the io nodes do not start with a digit (otherwise `add` rejects their per-step names) -/
  addable : ∀ x ∈ c.io, Circuit.isDigit0 x = false
  /-- the per-step io names are pairwise distinct -/
  distinct : ∀ x ∈ c.io, ∀ x' ∈ c.io, ∀ t, t < n → ∀ t', t' < n →
    stepName c pfx x t = stepName c pfx x' t' → x = x' ∧ t = t'
  /-- no per-step io name is the name `unrolled_<k>_<y>` of a spliced copy -/
  noCopy : ∀ x ∈ c.io, ∀ t, t < n → ∀ y, c.has y = true → ∀ k, k < n →
    stepName c pfx x t ≠ "unrolled_" ++ toString k ++ "_" ++ y

/-- every output may be wired to its io node by `connect`: none is typed `bb_input`, and one typed `bb_output` has no load
    (`connect` lets a `bb_output` drive one buffer).  `LintClean` and `bbs = []` do not exclude pin-typed nodes. -/
def PinOutputsOK (c : Circuit) : Prop :=
  ∀ x ∈ c.outputs, c.ty? x ≠ some "bb_input" ∧ (c.ty? x = some "bb_output" → c.fanout x = [])

/-- the simpler, slightly stronger condition: no output of the circuit is typed as a blackbox pin -/
def NoPinOutputs (c : Circuit) : Prop :=
  ∀ x ∈ c.outputs, c.ty? x ≠ some "bb_input" ∧ c.ty? x ≠ some "bb_output"

theorem NoPinOutputs.toOK {c : Circuit} (h : NoPinOutputs c) : PinOutputsOK c := UnrollOk.pinOK_of_noPin h

theorem StepNamesOK.toHelper {c : Circuit} {pfx : String} {n : Nat} {ord : Ord} (hord : OrdOK ord)
    (h : StepNamesOK c pfx n) : UnrollOk.NamesOK c pfx (ord c.io) n where
  dig := fun x hx => h.addable x ((hord c.io).mem_iff.1 hx)
  inj := fun x hx x' hx' => h.distinct x ((hord c.io).mem_iff.1 hx) x' ((hord c.io).mem_iff.1 hx')
  copy := fun x hx => h.noCopy x ((hord c.io).mem_iff.1 hx)

/-- **C09 (unroll succeeds), corrected.** for a good circuit whose outputs can be wired (`PinOutputsOK`), a legal pairing
    and at least one step the call returns normally, provided the per-step io names are addable, pairwise distinct and
    distinct from the names of the spliced copies.  (`AddableNames` is only needed for the io nodes, and only its
    digit part.) -/
theorem unroll_ok' (c : Circuit) (n : Nat) (stateIO : List (Name × Name)) (pfx : String) (ord : Ord) (hord : OrdOK ord)
    (hc : Good c) (hp : Pairing c stateIO) (hn : 1 ≤ n) (hpin : PinOutputsOK c) (hnames : StepNamesOK c pfx n) :
    ∃ r, Tx.unroll c n stateIO pfx ord = .ok r :=
  UnrollOk.unroll_succeeds c n stateIO pfx ord hord hc.clean hc.nobb hp.keysOut hp.valsIn hp.valsNodup hn hpin
    (hnames.toHelper hord)

/-- the per-step io names of a successful call are the ones recorded in the io map -/
theorem unroll_ioName (c : Circuit) (n : Nat) (stateIO : List (Name × Name)) (pfx : String) (ord : Ord)
    (hord : OrdOK ord) (hc : Good c) (hp : Pairing c stateIO) (r : Tx.UState)
    (h : Tx.unroll c n stateIO pfx ord = .ok r) :
    ∀ x ∈ c.io, ∀ t, t < n → Tx.ioName r.2 x t = stepName c pfx x t := by
  intro x hx t ht
  obtain ⟨_, hmem, hloop⟩ := Unroll.unroll_unfold h
  have C := Unroll.ctx_of hord hc.clean.toWF hp.valsIn (fun p hp' => (hmem p hp').1) hp.valsNodup
  have I := Unroll.loop C n _ hloop
  rw [I.map, Unroll.ioName_mapAt _ _ _ _ ((hord c.io).mem_iff.2 hx) ht]
  rfl

/-- **C09 (unroll succeeds), exact.** the two hypotheses of `unroll_ok'` cannot be weakened: for a good circuit, a legal
    pairing and at least one step, the call returns normally IF AND ONLY IF the outputs can be wired and the per-step io
    names are addable, pairwise distinct and distinct from the names of the copies -/
theorem unroll_ok_iff (c : Circuit) (n : Nat) (stateIO : List (Name × Name)) (pfx : String) (ord : Ord) (hord : OrdOK ord)
    (hc : Good c) (hp : Pairing c stateIO) (hn : 1 ≤ n) :
    (∃ r, Tx.unroll c n stateIO pfx ord = .ok r) ↔ PinOutputsOK c ∧ StepNamesOK c pfx n := by
  constructor
  · rintro ⟨r, h⟩
    obtain ⟨a, b⟩ := UnrollOk.names_of_success c n stateIO pfx ord hord hc.clean.toWF hp.valsIn hp.valsNodup r h
    obtain ⟨d, e⟩ := UnrollOk.conds_of_success c n stateIO pfx ord hord hc.clean r h
    have hm : ∀ x, x ∈ c.io → x ∈ ord c.io := fun x hx => (hord c.io).mem_iff.2 hx
    exact ⟨e, fun x hx => d x (hm x hx), fun x hx x' hx' => a x (hm x hx) x' (hm x' hx'), fun x hx => b x (hm x hx)⟩
  · rintro ⟨h1, h2⟩
    exact unroll_ok' c n stateIO pfx ord hord hc hp hn h1 h2

/-- no node of the circuit is called like a per-step io name `<io>_<prefix>_<t>` (then `uid` appends no suffix) -/
def FreshStepNames (c : Circuit) (pfx : String) : Prop :=
  ∀ x ∈ c.io, ∀ t : Nat, c.has (x ++ "_" ++ pfx ++ "_" ++ toString t) = false

/-- **C09 (unroll succeeds), syntactic version**: the original hypotheses plus `NoPinOutputs` and `FreshStepNames` -/
theorem unroll_ok_fresh (c : Circuit) (n : Nat) (stateIO : List (Name × Name)) (pfx : String) (ord : Ord)
    (hord : OrdOK ord) (hc : Good c) (hp : Pairing c stateIO) (hn : 1 ≤ n) (hnames : AddableNames c)
    (hclash : NoStepClash c pfx) (hpin : NoPinOutputs c) (hfresh : FreshStepNames c pfx) :
    ∃ r, Tx.unroll c n stateIO pfx ord = .ok r := by
  have hio : ∀ x, x ∈ ord c.io → x ∈ c.io := fun x hx => (hord c.io).mem_iff.1 hx
  have hdig : ∀ x ∈ ord c.io, Circuit.isDigit0 x = false := by
    intro x hx
    have hx' : c.has x = true := by
      rcases mem_union.1 (hio x hx) with h | h
      · exact mem_inputs_has h
      · exact mem_outputs_has h
    obtain ⟨a, ha⟩ := has_exists hx'
    exact (hnames _ ha).2
  exact UnrollOk.unroll_succeeds c n stateIO pfx ord hord hc.clean hc.nobb hp.keysOut hp.valsIn hp.valsNodup hn hpin.toOK
    (UnrollOk.namesOK_of_fresh n hdig (fun x hx => hfresh x (hio x hx)) (fun x hx => hclash x (hio x hx)))

/-! ### the clash hypothesis is needed -/

/-- the input `unrolled_0_a` gets the step-0 name `unrolled_0_a_p_0`, which is also the name of the step-0 copy of the
    node `a_p_0` -/
def clashCircuit : Circuit :=
  { nodes := [("unrolled_0_a", { ty := some "input", out := some false }),
              ("a_p_0", { ty := some "buf", out := some true })],
    edges := [("unrolled_0_a", "a_p_0")] }

/-- the hypothesis `hclash` is needed: a lint-clean circuit for which `unroll` raises ValueError -/
theorem unroll_ok_needs_hclash :
    ∃ (c : Circuit) (pfx : String), Good c ∧ Pairing c [] ∧ AddableNames c ∧
      Tx.unroll c 1 [] pfx id = .error .valueError := by
  refine ⟨clashCircuit, "p", ⟨Limit.lintClean_of_checks clashCircuit ⟨by decide, by decide, by decide⟩ (by decide)
    (by decide) (by decide), rfl⟩, ⟨by decide, by decide, by decide, by decide, by decide⟩,
    by unfold AddableNames; decide, ?_⟩
  exact UnrollOk.eq_of_isValueError (by decide +kernel)

/-- … and it is really `hclash` that fails there (all other hypotheses of `unroll_ok'` / `unroll_ok_fresh` hold) -/
theorem clashCircuit_clash : ¬ NoStepClash clashCircuit "p" ∧ NoPinOutputs clashCircuit ∧
    FreshStepNames clashCircuit "p" := by
  refine ⟨fun h => h "unrolled_0_a" (by decide) 0 "a_p_0" (by decide) 0 (by decide),
    by unfold NoPinOutputs; decide, ?_⟩
  intro x hx t
  have hx' : x = "unrolled_0_a" ∨ x = "a_p_0" := by
    have : clashCircuit.io = ["unrolled_0_a", "a_p_0"] := by decide
    rw [this] at hx
    simpa using hx
  have key : ∀ y ∈ clashCircuit.nodeNames, x ++ "_" ++ "p" ++ "_" ++ toString t ≠ y := by
    have hl : ∀ s : String, (x ++ "_" ++ "p" ++ "_" ++ toString t) = s →
        (x.toList ++ '_' :: 'p' :: '_' :: (toString t).toList) = s.toList := by
      intro s hs
      rw [← hs]
      simp [String.toList_append]
    intro y hy e
    have hy' : y = "unrolled_0_a" ∨ y = "a_p_0" := by
      have : clashCircuit.nodeNames = ["unrolled_0_a", "a_p_0"] := by decide
      rw [this] at hy
      simpa using hy
    have hlist := hl y e
    rcases hx' with rfl | rfl <;> rcases hy' with rfl | rfl <;> simp at hlist
  cases hh : clashCircuit.has (x ++ "_" ++ "p" ++ "_" ++ toString t) with
  | false => rfl
  | true => exact absurd rfl (key _ ((Circuit.has_iff_mem _ _).1 hh))

end CG.C09
