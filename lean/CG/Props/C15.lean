/-
  C15 — bench reader and writer are faithful.
  Theorems are about the statement level of the bench dialect: `Bench.build` (the API calls the reader makes for the
  statements its regular expressions extract) and `Bench.toStmts` (the statements the writer emits).  The character
  level (`Bench.parse` = four `re.findall` passes over the text, `Bench.renderStmt`) is tied to the real code by
  differential testing only: that part is C15_partial.
  Property theorems only; helper lemmas live in CG/Proofs/Bench*.lean.
-/
import CG.Bench
import CG.Spec
import CG.Props.C06
import CG.Proofs.BenchP
import CG.Proofs.BenchSem
import CG.Proofs.BenchRound
namespace CG.C15
open Bench

/-- static tie: the reader's regular expressions extracted from io.py are the ones the differential tests and these
    statements refer to -/
theorem tables_regex : Generated.regex_bench = some Bench.Expected.regexes := by rfl

def gateTys : List String := ["buf", "not", "or", "nor", "and", "nand", "xor", "xnor"]

/-- a well-formed netlist of the dialect, in reader order: inputs, gate lines, DFF lines (nets first), outputs -/
structure WellFormed (ins : List Name) (gates : List (Name × String × List Name)) (dffs : List (Name × Name))
    (outs : List Name) : Prop where
  names : ∀ n, (n ∈ ins ∨ n ∈ gates.map (·.1) ∨ n ∈ dffs.map (·.1)) → n ≠ "" ∧ Circuit.isDigit0 n = false ∧ ¬ hasDotB n
  defsNodup : (ins ++ gates.map (·.1) ++ dffs.map (·.1)).Nodup
  gateTy : ∀ g ∈ gates, g.2.1 ∈ gateTys
  gateArity : ∀ g ∈ gates, g.2.2 ≠ [] ∧ ((g.2.1 = "buf" ∨ g.2.1 = "not") → g.2.2.length = 1)
  uses : ∀ g ∈ gates, ∀ x ∈ g.2.2, x ∈ ins ∨ x ∈ gates.map (·.1) ∨ x ∈ dffs.map (·.1)
  dffUses : ∀ d ∈ dffs, d.2 ∈ ins ∨ d.2 ∈ gates.map (·.1) ∨ d.2 ∈ dffs.map (·.1)
  outsDef : ∀ o ∈ outs, o ∈ ins ∨ o ∈ gates.map (·.1) ∨ o ∈ dffs.map (·.1)

/-- the statement list the reader's four passes produce for such a netlist -/
def stmtsOf (ins : List Name) (gates : List (Name × String × List Name)) (dffs : List (Name × Name)) (outs : List Name) :
    List Stmt :=
  ins.map Stmt.input ++ gates.map (fun g => Stmt.gate g.1 g.2.1 g.2.2) ++ dffs.map (fun d => Stmt.dffNet d.1) ++
  dffs.map (fun d => Stmt.dff d.1 d.2) ++ outs.map Stmt.output

/-- **C15 (reader, statement level).** the circuit built for a well-formed netlist has exactly the declared inputs and
    outputs; every gate net computes its gate function of the nets it names (whatever the line order: use before
    definition is fine); every DFF is a `dff` blackbox between its D net and its Q net -/
theorem build_sem (name : String) (ins : List Name) (gates : List (Name × String × List Name)) (dffs : List (Name × Name))
    (outs : List Name) (hw : WellFormed ins gates dffs outs) :
    ∃ c, build name (stmtsOf ins gates dffs outs) = .ok c ∧
      (∀ x, x ∈ c.inputs ↔ x ∈ ins) ∧ (∀ x, x ∈ c.outputs ↔ x ∈ outs) ∧
      (∀ g ∈ gates, g.2.2.Nodup → c.ty? g.1 = some g.2.1 ∧ (c.fanin g.1).Perm g.2.2) ∧
      (∀ v, Consistent c v → ∀ g ∈ gates, ∀ b, gateFn g.2.1 (g.2.2.map v) = some b → v g.1 = b) ∧
      (∀ d ∈ dffs, c.bbs.lookup (d.1 ++ "_dff") = some dffBB ∧ c.ty? d.1 = some "buf" ∧
          c.fanin (d.1 ++ "_dff.D") = [d.2] ∧ c.fanin d.1 = [d.1 ++ "_dff.Q"]) :=
  BenchP.build_semP name ⟨hw.names, hw.defsNodup, hw.gateTy, hw.gateArity, hw.uses, hw.dffUses, hw.outsDef⟩

/-- regression (K35): in a parity gate an operand given an even number of times cancels — `o = XOR(a, b, a)` is a
    XOR of `b` alone, `p = XNOR(a, a)` is the constant 1 -/
example : (build "t" [.input "a", .input "b", .gate "o" "xor" ["a", "b", "a"], .gate "p" "xnor" ["a", "a"],
      .output "o", .output "p"]).toOption.map
    (fun c => (c.ty? "o", c.fanin "o", c.ty? "p", c.fanin "p")) = some (some "xor", ["b"], some "1", []) := by
  decide +kernel

/-- the writer's statements for a lint-clean blackbox-free circuit with at least one input and no `x` constants -/
structure Writable (c : Circuit) : Prop where
  clean : LintClean c
  nobb : c.bbs = []
  hasInput : c.inputs ≠ []
  types : ∀ p ∈ c.nodes, ∀ t, p.2.ty = some t → t ∈ gateTys ∨ t = "0" ∨ t = "1" ∨ t = "input"
  names : ∀ p ∈ c.nodes, p.1 ≠ "" ∧ Circuit.isDigit0 p.1 = false ∧ ¬ hasDotB p.1

/-- **C15 (round trip, statement level).** reading back what the writer emits gives a circuit with the same inputs and
    outputs that refines the original on every original node (so every output computes the same function), including
    circuits with constant nodes (built from an input and its complement) -/
theorem roundtrip (c : Circuit) (ord ord' : Ord) (hord : OrdOK ord) (hord' : OrdOK ord') (hc : Writable c) :
    ∃ ss c', toStmts c ord = .ok ss ∧ build c.name ss = .ok c' ∧
      (∀ x, x ∈ c'.inputs ↔ x ∈ c.inputs) ∧ (∀ x, x ∈ c'.outputs ↔ x ∈ c.outputs) ∧
      Refines c c' id := by
  have _ := hord'   -- the reader iterates no sets: the second order is irrelevant
  have hc' : BenchP.WritableP c := ⟨hc.clean, hc.nobb, hc.hasInput, hc.types, hc.names⟩
  obtain ⟨ss, c', e1, e2, R⟩ := BenchP.roundtrip_ex hc' hord
  exact ⟨ss, c', e1, e2, (BenchP.roundtrip_ifaceP hc' hord R).1, (BenchP.roundtrip_ifaceP hc' hord R).2,
    BenchP.roundtrip_refinesP hc' hord R⟩

/-- without constants the round trip is exact: same nodes, types, output marks and wires -/
theorem roundtrip_exact (c : Circuit) (ord : Ord) (hord : OrdOK ord) (hc : Writable c)
    (hnc : ∀ p ∈ c.nodes, p.2.ty ≠ some "0" ∧ p.2.ty ≠ some "1") (hout : ∀ p ∈ c.nodes, p.2.out.isSome = true) :
    ∃ ss c', toStmts c ord = .ok ss ∧ build c.name ss = .ok c' ∧
      (∀ n, c'.has n = c.has n) ∧ (∀ n, c.has n = true → c'.ty? n = c.ty? n ∧ c'.isOut n = c.isOut n) ∧
      (∀ e, e ∈ c'.edges ↔ e ∈ c.edges) := by
  have _ := hout    -- not needed: `is_output` treats a missing mark as False on both sides
  have hc' : BenchP.WritableP c := ⟨hc.clean, hc.nobb, hc.hasInput, hc.types, hc.names⟩
  obtain ⟨ss, c', e1, e2, R⟩ := BenchP.roundtrip_ex hc' hord
  exact ⟨ss, c', e1, e2, BenchP.roundtrip_exactP hc' hord hnc R⟩

/-- the writer rejects circuits with blackboxes (ValueError) and circuits without inputs (KeyError from set.pop) -/
theorem write_rejects (c : Circuit) (ord : Ord) :
    (c.bbs ≠ [] → write c ord = .error .valueError) ∧
    (c.bbs = [] → (∀ p ∈ c.nodes, p.2.ty.isSome = true) → c.inputs = [] → OrdOK ord → write c ord = .error .keyError) :=
  ⟨BenchP.write_bbs c ord, BenchP.write_noInputs c ord⟩

/-! non-vacuity -/
example : WellFormed ["a", "b"] [("o", "nand", ["a", "q"]), ("p", "buf", ["o"])] [("q", "p")] ["p", "q"] := by
  constructor
  · intro n hn
    simp only [List.map_cons, List.map_nil, List.mem_cons, List.not_mem_nil, or_false] at hn
    rcases hn with (rfl | rfl) | (rfl | rfl) | rfl <;> (unfold hasDotB; decide)
  · decide
  · decide
  · decide
  · decide
  · decide
  · decide
example : (build "t" (stmtsOf ["a", "b"] [("o", "nand", ["a", "q"]), ("p", "buf", ["o"])] [("q", "p")] ["p", "q"])).toOption.map
    (fun c => c.nodes.length) = some 7 := by decide

end CG.C15
