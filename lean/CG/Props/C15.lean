/-
  C15 — bench reader and writer are faithful.
  Theorems are about the statement level of the bench dialect: `Bench.build` (the API calls the reader makes for the
  statements its regular expressions extract) and `Bench.toStmts` (the statements the writer emits).  The character
  level (`Bench.parse` = comment stripping + four `re.findall` passes over the text, `Bench.renderStmt`) is covered by
  `parse_write`, `roundtrip_text` and `parse_canonical` at the end of this file: theorems about the regex engine of
  CG/Regex.lean (the model of CPython's `re`, itself tied to `re` by differential testing) running the extracted patterns.
  Property theorems only; helper lemmas live in CG/Proofs/Bench*.lean.
-/
import CG.Bench
import CG.Spec
import CG.Props.C06
import CG.Proofs.BenchP
import CG.Proofs.BenchSem
import CG.Proofs.BenchRound
import CG.Proofs.BenchTextWrite
import CG.Proofs.BenchTextCanon
namespace CG.C15
open Bench

/-- static tie: the reader's regular expressions extracted from io.py are the ones the differential tests and these
    statements refer to -/
theorem tables_regex : Generated.regex_bench = some Bench.Expected.regexes := by rfl

def gateTys : List String := ["buf", "not", "or", "nor", "and", "nand", "xor", "xnor"]

/-- a well-formed netlist of the dialect, in reader order: inputs, gate lines, DFF lines (nets first), outputs -/
structure WellFormed (ins : List Name) (gates : List (Name × String × List Name)) (dffs : List (Name × Name))
    (outs : List Name) : Prop where
  names : ∀ n, (n ∈ ins ∨ n ∈ gates.map (·.1) ∨ n ∈ dffs.map (·.1)) → n ≠ "" ∧ Circuit.isDigit0 n = false ∧ ¬ hasDotB n
  defsNodup : (ins ++ gates.map (·.1) ++ dffs.map (·.1)).Nodup
  gateTy : ∀ g ∈ gates, g.2.1 ∈ gateTys
  gateArity : ∀ g ∈ gates, g.2.2 ≠ [] ∧ ((g.2.1 = "buf" ∨ g.2.1 = "not") → g.2.2.length = 1)
  uses : ∀ g ∈ gates, ∀ x ∈ g.2.2, x ∈ ins ∨ x ∈ gates.map (·.1) ∨ x ∈ dffs.map (·.1)
  dffUses : ∀ d ∈ dffs, d.2 ∈ ins ∨ d.2 ∈ gates.map (·.1) ∨ d.2 ∈ dffs.map (·.1)
  outsDef : ∀ o ∈ outs, o ∈ ins ∨ o ∈ gates.map (·.1) ∨ o ∈ dffs.map (·.1)

/-- the statement list the reader's four passes produce for such a netlist -/
def stmtsOf (ins : List Name) (gates : List (Name × String × List Name)) (dffs : List (Name × Name)) (outs : List Name) :
    List Stmt :=
  ins.map Stmt.input ++ gates.map (fun g => Stmt.gate g.1 g.2.1 g.2.2) ++ dffs.map (fun d => Stmt.dffNet d.1) ++
  dffs.map (fun d => Stmt.dff d.1 d.2) ++ outs.map Stmt.output

/-- **C15 (reader, statement level).** the circuit built for a well-formed netlist has exactly the declared inputs and
    outputs; every gate net computes its gate function of the nets it names (whatever the line order: use before
    definition is fine); every DFF is a `dff` blackbox between its D net and its Q net -/
theorem build_sem (name : String) (ins : List Name) (gates : List (Name × String × List Name)) (dffs : List (Name × Name))
    (outs : List Name) (hw : WellFormed ins gates dffs outs) :
    ∃ c, build name (stmtsOf ins gates dffs outs) = .ok c ∧
      (∀ x, x ∈ c.inputs ↔ x ∈ ins) ∧ (∀ x, x ∈ c.outputs ↔ x ∈ outs) ∧
      (∀ g ∈ gates, g.2.2.Nodup → c.ty? g.1 = some g.2.1 ∧ (c.fanin g.1).Perm g.2.2) ∧
      (∀ v, Consistent c v → ∀ g ∈ gates, ∀ b, gateFn g.2.1 (g.2.2.map v) = some b → v g.1 = b) ∧
      (∀ d ∈ dffs, c.bbs.lookup (d.1 ++ "_dff") = some dffBB ∧ c.ty? d.1 = some "buf" ∧
          c.fanin (d.1 ++ "_dff.D") = [d.2] ∧ c.fanin d.1 = [d.1 ++ "_dff.Q"]) :=
  BenchP.build_semP name ⟨hw.names, hw.defsNodup, hw.gateTy, hw.gateArity, hw.uses, hw.dffUses, hw.outsDef⟩

/-- regression (K35): in a parity gate an operand given an even number of times cancels — `o = XOR(a, b, a)` is a
    XOR of `b` alone, `p = XNOR(a, a)` is the constant 1 -/
example : (build "t" [.input "a", .input "b", .gate "o" "xor" ["a", "b", "a"], .gate "p" "xnor" ["a", "a"],
      .output "o", .output "p"]).toOption.map
    (fun c => (c.ty? "o", c.fanin "o", c.ty? "p", c.fanin "p")) = some (some "xor", ["b"], some "1", []) := by
  decide +kernel

/-- the writer's statements for a lint-clean blackbox-free circuit with at least one input and no `x` constants -/
structure Writable (c : Circuit) : Prop where
  clean : LintClean c
  nobb : c.bbs = []
  hasInput : c.inputs ≠ []
  types : ∀ p ∈ c.nodes, ∀ t, p.2.ty = some t → t ∈ gateTys ∨ t = "0" ∨ t = "1" ∨ t = "input"
  names : ∀ p ∈ c.nodes, p.1 ≠ "" ∧ Circuit.isDigit0 p.1 = false ∧ ¬ hasDotB p.1

/-- **C15 (round trip, statement level).** reading back what the writer emits gives a circuit with the same inputs and
    outputs that refines the original on every original node (so every output computes the same function), including
    circuits with constant nodes (built from an input and its complement) -/
theorem roundtrip (c : Circuit) (ord ord' : Ord) (hord : OrdOK ord) (hord' : OrdOK ord') (hc : Writable c) :
    ∃ ss c', toStmts c ord = .ok ss ∧ build c.name ss = .ok c' ∧
      (∀ x, x ∈ c'.inputs ↔ x ∈ c.inputs) ∧ (∀ x, x ∈ c'.outputs ↔ x ∈ c.outputs) ∧
      Refines c c' id := by
  have _ := hord'   -- the reader iterates no sets: the second order is irrelevant
  have hc' : BenchP.WritableP c := ⟨hc.clean, hc.nobb, hc.hasInput, hc.types, hc.names⟩
  obtain ⟨ss, c', e1, e2, R⟩ := BenchP.roundtrip_ex hc' hord
  exact ⟨ss, c', e1, e2, (BenchP.roundtrip_ifaceP hc' hord R).1, (BenchP.roundtrip_ifaceP hc' hord R).2,
    BenchP.roundtrip_refinesP hc' hord R⟩

/-- without constants the round trip is exact: same nodes, types, output marks and wires -/
theorem roundtrip_exact (c : Circuit) (ord : Ord) (hord : OrdOK ord) (hc : Writable c)
    (hnc : ∀ p ∈ c.nodes, p.2.ty ≠ some "0" ∧ p.2.ty ≠ some "1") (hout : ∀ p ∈ c.nodes, p.2.out.isSome = true) :
    ∃ ss c', toStmts c ord = .ok ss ∧ build c.name ss = .ok c' ∧
      (∀ n, c'.has n = c.has n) ∧ (∀ n, c.has n = true → c'.ty? n = c.ty? n ∧ c'.isOut n = c.isOut n) ∧
      (∀ e, e ∈ c'.edges ↔ e ∈ c.edges) := by
  have _ := hout    -- not needed: `is_output` treats a missing mark as False on both sides
  have hc' : BenchP.WritableP c := ⟨hc.clean, hc.nobb, hc.hasInput, hc.types, hc.names⟩
  obtain ⟨ss, c', e1, e2, R⟩ := BenchP.roundtrip_ex hc' hord
  exact ⟨ss, c', e1, e2, BenchP.roundtrip_exactP hc' hord hnc R⟩

/-- the writer rejects circuits with blackboxes (ValueError) and circuits without inputs (KeyError from set.pop) -/
theorem write_rejects (c : Circuit) (ord : Ord) :
    (c.bbs ≠ [] → write c ord = .error .valueError) ∧
    (c.bbs = [] → (∀ p ∈ c.nodes, p.2.ty.isSome = true) → c.inputs = [] → OrdOK ord → write c ord = .error .keyError) :=
  ⟨BenchP.write_bbs c ord, BenchP.write_noInputs c ord⟩

/-! non-vacuity -/
example : WellFormed ["a", "b"] [("o", "nand", ["a", "q"]), ("p", "buf", ["o"])] [("q", "p")] ["p", "q"] := by
  constructor
  · intro n hn
    simp only [List.map_cons, List.map_nil, List.mem_cons, List.not_mem_nil, or_false] at hn
    rcases hn with (rfl | rfl) | (rfl | rfl) | rfl <;> (unfold hasDotB; decide)
  · decide
  · decide
  · decide
  · decide
  · decide
  · decide
example : (build "t" (stmtsOf ["a", "b"] [("o", "nand", ["a", "q"]), ("p", "buf", ["o"])] [("q", "p")] ["p", "q"])).toOption.map
    (fun c => c.nodes.length) = some 7 := by decide

/-! ### character level: the reader's regular expressions on the writer's text -/

/-- the identifiers the reader's regular expressions accept: `[a-zA-Z_][a-zA-Z\d_]*` -/
def identStart (ch : Char) : Bool := ch.isAlpha || ch == '_'
def identChar (ch : Char) : Bool := ch.isAlpha || ch.isDigit || ch == '_'
def IdentOK (n : Name) : Prop :=
  match n.toList with
  | [] => False
  | ch :: rest => identStart ch = true ∧ ∀ x ∈ rest, identChar x = true

/-- **C15 (writer → reader, character level).** for every writable circuit whose node names are identifiers of the dialect
    (and whose own name, which goes into the `#` header, contains no line break), the four regular-expression passes of the
    reader over the text the writer emits extract exactly the statements the writer meant, in reader order — for every
    set-iteration order of the writer -/
theorem parse_write (c : Circuit) (ord : Ord) (hord : OrdOK ord) (hc : Writable c)
    (hid : ∀ p ∈ c.nodes, IdentOK p.1) (hname : '\n' ∉ c.name.toList) :
    ∃ text ss, write c ord = .ok text ∧ toStmts c ord = .ok ss ∧ parse text = some ss :=
  BenchText.parse_write_core c ord hord ⟨hc.clean, hc.nobb, hc.hasInput, hc.types, hc.names⟩
    (fun p hp => BenchText.identL_of p.1 (hid p hp)) hname

/-- **C15 (round trip, text level).** hence reading back the *text* `circuit_to_bench` emits gives a circuit with the same
    inputs and outputs that refines the original on every original node -/
theorem roundtrip_text (c : Circuit) (ord : Ord) (hord : OrdOK ord) (hc : Writable c)
    (hid : ∀ p ∈ c.nodes, IdentOK p.1) (hname : '\n' ∉ c.name.toList) :
    ∃ text c', write c ord = .ok text ∧ read text c.name = .ok c' ∧
      (∀ x, x ∈ c'.inputs ↔ x ∈ c.inputs) ∧ (∀ x, x ∈ c'.outputs ↔ x ∈ c.outputs) ∧ Refines c c' id := by
  obtain ⟨text, ss, hw, hs, hp⟩ := parse_write c ord hord hc hid hname
  obtain ⟨ss', c', hs', hb, h1, h2, h3⟩ := roundtrip c ord ord hord hord hc
  rw [hs] at hs'
  cases hs'
  exact ⟨text, c', hw, by unfold Bench.read; rw [hp]; exact hb, h1, h2, h3⟩

/-- **C15 (reader, character level, canonical layout).** a well-formed netlist written one statement per line in the
    layout `INPUT(a)` / `OUTPUT(o)` / `n = TYPE(a, b)` / `q = DFF(d)` (upper-case keywords, any order of the lines) is
    parsed into exactly its statements in reader order -/
def canonLines (ins : List Name) (gates : List (Name × String × List Name)) (dffs : List (Name × Name)) (outs : List Name) :
    List String :=
  ins.map (fun i => renderStmt (.input i)) ++ outs.map (fun o => renderStmt (.output o)) ++
  gates.map (fun g => renderStmt (.gate g.1 g.2.1 g.2.2)) ++ dffs.map (fun d => renderStmt (.dff d.1 d.2))

theorem parse_canonical (ins : List Name) (gates : List (Name × String × List Name)) (dffs : List (Name × Name))
    (outs : List Name) (hw : WellFormed ins gates dffs outs)
    (hid : ∀ n, (n ∈ ins ∨ n ∈ gates.map (·.1) ∨ n ∈ dffs.map (·.1)) → IdentOK n)
    (lines : List String) (hperm : lines.Perm (canonLines ins gates dffs outs)) :
    ∃ ins' gates' dffs' outs', ins'.Perm ins ∧ gates'.Perm gates ∧ dffs'.Perm dffs ∧ outs'.Perm outs ∧
      parse ("\n".intercalate lines) = some (stmtsOf ins' gates' dffs' outs') := by
  have hnm : ∀ n, (n ∈ ins ∨ n ∈ gates.map (·.1) ∨ n ∈ dffs.map (·.1)) → BenchText.NameOK n :=
    fun n hn => BenchText.identL_of n (hid n hn)
  have hl : canonLines ins gates dffs outs = (BenchText.canonStmts ins gates dffs outs).map renderStmt := by
    simp [canonLines, BenchText.canonStmts, List.map_append, List.map_map, Function.comp_def]
  rw [hl] at hperm
  exact BenchText.parse_canonical_core ins gates dffs outs hnm hw.gateTy (fun g hg => (hw.gateArity g hg).1) hw.uses
    hw.dffUses hw.outsDef lines hperm


/-- non-vacuity: identifiers of the dialect (`a_inv_0`, as the writer's constant encoding makes them) and a name that is
    not one (`a[0]`: known finding K46) -/
example : IdentOK "a_inv_0" := by
  show (match "a_inv_0".toList with | [] => False | ch :: rest => identStart ch = true ∧ ∀ x ∈ rest, identChar x = true)
  have : "a_inv_0".toList = ['a', '_', 'i', 'n', 'v', '_', '0'] := by decide
  rw [this]; exact ⟨by decide, by decide⟩
example : ¬ IdentOK "a[0]" := by
  show ¬ (match "a[0]".toList with | [] => False | ch :: rest => identStart ch = true ∧ ∀ x ∈ rest, identChar x = true)
  have : "a[0]".toList = ['a', '[', '0', ']'] := by decide
  rw [this]; decide

/-- the repaired cleaning of an operand list (K54): a carriage return is dropped like every other white-space character
    (`"".join(s.split())`), so a list wrapped with CRLF line ends no longer yields the net name `"\rb"` -/
theorem squeeze_drops_cr : Bench.squeeze "a,\r\n b" = "a,b" := by decide

end CG.C15
