/-
  C15 (reader, character level, FREE layout) — generalisation of `parse_canonical`: every statement may be written with
  its keyword in upper or lower case (`buf` also as `buff`/`BUFF`) and with arbitrary white space at every place where
  the reader's patterns have `\s*`, and around every operand inside the parentheses (the operand list is cleaned by
  `Bench.squeeze`).  White space may even contain line breaks (a statement may be wrapped).  Statements are separated
  by `"\n"`; each starts with its first token and ends with its `)`.
  Helper lemmas: CG/Proofs/BenchFree*.lean.
-/
import CG.Props.C15
import CG.Proofs.BenchFreeParse
namespace CG.C15
open Bench

/-- the white space allowed at a gap: blank, tab, line feed, carriage return, vertical tab, form feed -/
def GapOK (s : String) : Prop := ∀ ch ∈ s.toList, ch ∈ [' ', '\t', '\n', '\r', '\x0b', '\x0c']

/-- the layout of one statement: keyword case, spelling of `buf`, and the white space at each gap:
    `KW a ( b name c )` for INPUT/OUTPUT, `net a = b KW c ( pre₀ op₀ post₀ , pre₁ op₁ post₁ , … )` for gates and DFFs -/
structure Lay where
  upper : Bool := true
  buff : Bool := false
  a : String := ""
  b : String := ""
  c : String := ""
  ops : Nat → String × String := fun i => (if i = 0 then "" else " ", "")

def Lay.OK (L : Lay) : Prop := GapOK L.a ∧ GapOK L.b ∧ GapOK L.c ∧ ∀ i, GapOK (L.ops i).1 ∧ GapOK (L.ops i).2

/-- a keyword in upper case or as it is (lower case) -/
def kw (up : Bool) (s : String) : String := if up then Bench.upper s else s

def renderOps (ops : Nat → String × String) : Nat → List Name → List String
  | _, [] => []
  | i, x :: xs => ((ops i).1 ++ x ++ (ops i).2) :: renderOps ops (i + 1) xs

/-- a statement in free layout -/
def renderFree : Stmt → Lay → String
  | .input n, L => kw L.upper "input" ++ L.a ++ "(" ++ L.b ++ n ++ L.c ++ ")"
  | .output n, L => kw L.upper "output" ++ L.a ++ "(" ++ L.b ++ n ++ L.c ++ ")"
  | .gate n t ins, L =>
    n ++ L.a ++ "=" ++ L.b ++ kw L.upper (if L.buff && t == "buf" then "buff" else t) ++ L.c ++ "(" ++
      ",".intercalate (renderOps L.ops 0 ins) ++ ")"
  | .dff q d, L => q ++ L.a ++ "=" ++ L.b ++ kw L.upper "dff" ++ L.c ++ "(" ++ (L.ops 0).1 ++ d ++ (L.ops 0).2 ++ ")"
  | .dffNet _, _ => ""

/-- the statements of a netlist, one per line (the order `canonLines` uses) -/
def lineStmts (ins : List Name) (gates : List (Name × String × List Name)) (dffs : List (Name × Name)) (outs : List Name) :
    List Stmt :=
  ins.map Stmt.input ++ outs.map Stmt.output ++ gates.map (fun g => Stmt.gate g.1 g.2.1 g.2.2) ++
    dffs.map (fun d => Stmt.dff d.1 d.2)

/-! bridge to the helper files -/

private def conv (L : Lay) : BenchText.LayL :=
  { up := L.upper, ff := L.buff, a := L.a.toList, b := L.b.toList, c := L.c.toList,
    ops := fun i => ((L.ops i).1.toList, (L.ops i).2.toList) }

private theorem gap_ws {s : String} (h : GapOK s) : BenchText.AllWs s.toList := by
  intro x hx
  have := h x hx
  simp only [List.mem_cons, List.not_mem_nil, or_false] at this
  rcases this with rfl | rfl | rfl | rfl | rfl | rfl <;> decide

private theorem conv_ok {L : Lay} (h : L.OK) : (conv L).ok :=
  ⟨gap_ws h.1, gap_ws h.2.1, gap_ws h.2.2.1, fun i => ⟨gap_ws (h.2.2.2 i).1, gap_ws (h.2.2.2 i).2⟩⟩

private theorem renderOps_chars (ops : Nat → String × String) : ∀ (ins : List Name) (i : Nat),
    (renderOps ops i ins).map String.toList = BenchText.opsL (fun i => ((ops i).1.toList, (ops i).2.toList)) i ins
  | [], _ => rfl
  | x :: xs, i => by
    simp only [renderOps, BenchText.opsL, List.map_cons, String.toList_append, List.append_assoc]
    rw [renderOps_chars ops xs (i + 1)]

private theorem render_charsF (s : Stmt) (L : Lay) : (renderFree s L).toList = (BenchText.fl (s, conv L)).chars := by
  have e1 : ("(" : String).toList = ['('] := rfl
  have e2 : (")" : String).toList = [')'] := rfl
  have e3 : ("=" : String).toList = ['='] := rfl
  have e4 : ("," : String).toList = [','] := rfl
  cases s with
  | input n =>
    simp [renderFree, BenchText.fl, BenchText.flOf, BenchText.FL.chars, conv, String.toList_append, e1, e2, kw, BenchText.kwF] <;> rfl
  | output n =>
    simp [renderFree, BenchText.fl, BenchText.flOf, BenchText.FL.chars, conv, String.toList_append, e1, e2, kw, BenchText.kwF] <;> rfl
  | dffNet n => rfl
  | dff q d =>
    simp [renderFree, BenchText.fl, BenchText.flOf, BenchText.FL.chars, conv, String.toList_append, e1, e2, e3, kw,
      BenchText.kwF] <;> rfl
  | gate n t ins =>
    simp only [renderFree, BenchText.fl, BenchText.flOf, BenchText.FL.chars, conv, String.toList_append, e1, e2, e3, e4,
      String.toList_intercalate, renderOps_chars]
    simp [kw, BenchText.kwF, BenchText.gateKw]

private theorem map_fst_zip' {α β : Type} : ∀ (S : List α) (l : List β), S.length = l.length → (S.zip l).map (·.1) = S
  | [], _, _ => by simp
  | x :: S, [], h => by simp at h
  | x :: S, y :: l, h => by
    simp only [List.length_cons, Nat.add_right_cancel_iff] at h
    simp [map_fst_zip' S l h]

/-- **C15 (reader, character level, free layout).** a well-formed netlist whose statements are written in any layout —
    keywords in upper or lower case, `buf` also spelled `buff`, any white space (including line breaks) at every gap and
    around every operand — separated by line breaks in any order is parsed into exactly its statements in reader order;
    the gate type stored is the lower-case type with `buff` mapped to `buf`, i.e. the `t` of the statement -/
theorem parse_free (ins : List Name) (gates : List (Name × String × List Name)) (dffs : List (Name × Name))
    (outs : List Name) (hw : WellFormed ins gates dffs outs)
    (hid : ∀ n, (n ∈ ins ∨ n ∈ gates.map (·.1) ∨ n ∈ dffs.map (·.1)) → IdentOK n)
    (lays : List Lay) (hlen : lays.length = (lineStmts ins gates dffs outs).length) (hlay : ∀ L ∈ lays, L.OK)
    (lines : List String)
    (hperm : lines.Perm (((lineStmts ins gates dffs outs).zip lays).map (fun p => renderFree p.1 p.2))) :
    ∃ ins' gates' dffs' outs', ins'.Perm ins ∧ gates'.Perm gates ∧ dffs'.Perm dffs ∧ outs'.Perm outs ∧
      parse ("\n".intercalate lines) = some (stmtsOf ins' gates' dffs' outs') := by
  have hnm : ∀ n, (n ∈ ins ∨ n ∈ gates.map (·.1) ∨ n ∈ dffs.map (·.1)) → BenchText.NameOK n :=
    fun n hn => BenchText.identL_of n (hid n hn)
  obtain ⟨L', hp, rfl⟩ := BenchText.perm_map_inv (fun p : Stmt × Lay => renderFree p.1 p.2) hperm _ rfl
  have hS : (L'.map (·.1)).Perm (BenchText.canonStmts ins gates dffs outs) := by
    have := hp.map (·.1)
    rw [map_fst_zip' _ _ hlen.symm] at this
    exact this
  obtain ⟨f1, f2, f3, f4⟩ := BenchText.canon_filter ins gates dffs outs
  refine ⟨(L'.map (·.1)).filterMap BenchText.getIn, (L'.map (·.1)).filterMap BenchText.getGate,
    (L'.map (·.1)).filterMap BenchText.getDff, (L'.map (·.1)).filterMap BenchText.getOut,
    by rw [← f1]; exact hS.filterMap _, by rw [← f2]; exact hS.filterMap _, by rw [← f3]; exact hS.filterMap _,
    by rw [← f4]; exact hS.filterMap _, ?_⟩
  unfold stmtsOf
  rw [← BenchText.collect_eq]
  have hok : ∀ s ∈ L'.map (·.1), BenchText.StOK s := by
    intro s hs
    have hs' : s ∈ BenchText.canonStmts ins gates dffs outs := hS.mem_iff.mp hs
    unfold BenchText.canonStmts at hs'
    simp only [List.mem_append, List.mem_map] at hs'
    rcases hs' with ((⟨i, hi, rfl⟩ | ⟨o, ho, rfl⟩) | ⟨g, hg, rfl⟩) | ⟨d, hd, rfl⟩
    · exact hnm i (Or.inl hi)
    · exact hnm o (hw.outsDef o ho)
    · exact ⟨hnm g.1 (Or.inr (Or.inl (List.mem_map.mpr ⟨g, hg, rfl⟩))), hw.gateTy g hg, (hw.gateArity g hg).1,
        fun x hx => hnm x (hw.uses g hg x hx)⟩
    · exact ⟨hnm d.1 (Or.inr (Or.inr (List.mem_map.mpr ⟨d, hd, rfl⟩))), hnm d.2 (hw.dffUses d hd)⟩
  have hlay' : ∀ p ∈ L', p.2.OK := by
    intro p hpm
    have : p ∈ (lineStmts ins gates dffs outs).zip lays := hp.mem_iff.mp hpm
    exact hlay p.2 (List.of_mem_zip this).2
  by_cases hL : L' = []
  · subst hL
    have : BenchText.collect (([] : List (Stmt × Lay)).map (·.1)) =
        BenchText.collect (([(Stmt.dffNet "", conv {})] : List BenchText.SL).map (·.1)) := rfl
    rw [this]
    exact BenchText.parse_linesF _ [(Stmt.dffNet "", conv {})] (by simp) (by intro s hs; rw [List.mem_singleton.mp hs]; trivial)
      (by intro s hs; rw [List.mem_singleton.mp hs]; exact conv_ok ⟨by simp [GapOK], by simp [GapOK], by simp [GapOK],
        fun i => ⟨by intro ch hch; by_cases h0 : i = 0 <;> simp_all, by simp [GapOK]⟩⟩) rfl
  · have e : L'.map (·.1) = (L'.map (fun p => ((p.1, conv p.2) : BenchText.SL))).map (·.1) := by
      rw [List.map_map]; rfl
    rw [e]
    apply BenchText.parse_linesF _ (L'.map (fun p => ((p.1, conv p.2) : BenchText.SL))) (by simpa using hL)
    · intro s hs
      obtain ⟨p, hpm, rfl⟩ := List.mem_map.mp hs
      exact hok p.1 (List.mem_map.mpr ⟨p, hpm, rfl⟩)
    · intro s hs
      obtain ⟨p, hpm, rfl⟩ := List.mem_map.mp hs
      exact conv_ok (hlay' p hpm)
    · rw [String.toList_intercalate, List.map_map, List.map_map]
      have e2 : ("\n" : String).toList = ['\n'] := rfl
      rw [e2]
      congr 1
      apply List.map_congr_left
      intro p _
      exact render_charsF p.1 p.2

/-! ### the canonical layout is a special case -/

set_option linter.unusedSimpArgs false

/-- the canonical layout of a statement: `INPUT(a)`, `n = TYPE(a, b)`, `q = DFF(d)` -/
def canonLay : Stmt → Lay
  | .gate _ _ _ => { a := " ", b := " " }
  | .dff _ _ => { a := " ", b := " " }
  | _ => {}

theorem canonOps_tail : ∀ (xs : List Name) (i : Nat), xs ≠ [] →
    [','].intercalate ((renderOps (fun i => (if i = 0 then "" else " ", "")) (i + 1) xs).map String.toList) =
      ' ' :: [',', ' '].intercalate (xs.map String.toList)
  | [], _, h => absurd rfl h
  | [x], i, _ => by
    simp [renderOps, List.intercalate, String.toList_append]
  | x :: y :: xs, i, _ => by
    have ih := canonOps_tail (y :: xs) (i + 1) (by simp)
    simp only [renderOps, List.map_cons, List.intercalate] at ih ⊢
    simp only [List.intersperse_cons_cons, List.flatten_cons] at ih ⊢
    rw [ih]
    simp [String.toList_append]

theorem canonOps_all (xs : List Name) :
    ",".intercalate (renderOps (fun i => (if i = 0 then "" else " ", "")) 0 xs) = ", ".intercalate xs := by
  rw [← String.toList_inj, String.toList_intercalate, String.toList_intercalate]
  have e1 : (",":String).toList = [','] := rfl
  have e2 : (", ":String).toList = [',', ' '] := rfl
  rw [e1, e2]
  cases xs with
  | nil => rfl
  | cons x xs =>
    cases xs with
    | nil => simp [renderOps, List.intercalate, String.toList_append]
    | cons y xs =>
      have ih := canonOps_tail (y :: xs) 0 (by simp)
      simp only [renderOps, List.map_cons, List.intercalate, Nat.zero_add] at ih ⊢
      simp only [List.intersperse_cons_cons, List.flatten_cons] at ih ⊢
      rw [ih]
      simp [String.toList_append]

theorem renderFree_canon (s : Stmt) : renderFree s (canonLay s) = renderStmt s := by
  cases s with
  | input n => simp [renderFree, canonLay, renderStmt, kw]; rw [← String.toList_inj]; simp [String.toList_append]; rfl
  | output n => simp [renderFree, canonLay, renderStmt, kw]; rw [← String.toList_inj]; simp [String.toList_append]; rfl
  | dffNet n => rfl
  | dff q d => simp [renderFree, canonLay, renderStmt, kw]; rw [← String.toList_inj]; simp [String.toList_append]; rfl
  | gate n t ins =>
    simp only [renderFree, canonLay, renderStmt, kw, canonOps_all, Bool.false_and, Bool.false_eq_true, if_false, if_true]
    rw [← String.toList_inj]; simp [String.toList_append]

theorem canonLay_ok (s : Stmt) : (canonLay s).OK := by
  have e0 : ("" : String).toList = [] := rfl
  have e1 : (" " : String).toList = [' '] := rfl
  cases s <;> refine ⟨?_, ?_, ?_, fun i => ⟨?_, ?_⟩⟩ <;> intro ch hch <;> (try by_cases h0 : i = 0) <;>
    simp_all [canonLay, GapOK]

theorem zip_map_self {α β γ : Type} (f : α → β → γ) (g : α → β) : ∀ S : List α,
    (S.zip (S.map g)).map (fun p => f p.1 p.2) = S.map (fun s => f s (g s))
  | [] => rfl
  | x :: S => by simp [zip_map_self f g S]

/-- `parse_canonical` is the special case of `parse_free` for the canonical layout -/
theorem parse_canonical_of_free (ins : List Name) (gates : List (Name × String × List Name)) (dffs : List (Name × Name))
    (outs : List Name) (hw : WellFormed ins gates dffs outs)
    (hid : ∀ n, (n ∈ ins ∨ n ∈ gates.map (·.1) ∨ n ∈ dffs.map (·.1)) → IdentOK n)
    (lines : List String) (hperm : lines.Perm (canonLines ins gates dffs outs)) :
    ∃ ins' gates' dffs' outs', ins'.Perm ins ∧ gates'.Perm gates ∧ dffs'.Perm dffs ∧ outs'.Perm outs ∧
      parse ("\n".intercalate lines) = some (stmtsOf ins' gates' dffs' outs') := by
  refine parse_free ins gates dffs outs hw hid ((lineStmts ins gates dffs outs).map canonLay) (by simp) ?_ lines ?_
  · intro L hL
    obtain ⟨s, _, rfl⟩ := List.mem_map.mp hL
    exact canonLay_ok s
  · rw [zip_map_self]
    have : canonLines ins gates dffs outs = (lineStmts ins gates dffs outs).map (fun s => renderFree s (canonLay s)) := by
      simp [canonLines, lineStmts, List.map_append, List.map_map, Function.comp_def, renderFree_canon]
    rw [← this]
    exact hperm

end CG.C15

namespace CG.C15
/-- non-vacuity: a layout with tabs, a CRLF-wrapped operand list, lower-case keyword and the `buff` spelling is admissible,
    and it renders to the text one expects -/
def exLay : Lay := { upper := false, buff := true, a := "\t", b := " ", c := "", ops := fun i => (if i = 0 then "" else "\r\n ", " ") }

example : exLay.OK := by
  refine ⟨by simp [exLay, GapOK], by simp [exLay, GapOK], by simp [exLay, GapOK], fun i => ?_⟩
  by_cases h : i = 0 <;> simp [exLay, h, GapOK]

example : renderFree (.gate "n1" "buf" ["a"]) exLay = "n1\t= buff(a )" := by decide
example : renderFree (.gate "n2" "and" ["a", "b"]) exLay = "n2\t= and(a ,\r\n b )" := by decide
end CG.C15
