/-
  C18 — acyclic_unroll removes cycles and preserves stable states.
  Property theorems only; helper lemmas live in CG/Proofs/AcycUnroll*.lean.
-/
import CG.Tx3
import CG.Spec
import CG.Props.C01
import CG.Props.C06
import CG.Proofs.AcycUnroll
set_option linter.unusedVariables false
namespace CG.C18
open Query

/-- the circuits the statement ranges over: lint-clean, blackbox-free, no self-loops -/
structure Good (c : Circuit) : Prop where
  clean : LintClean c
  nobb : c.bbs = []
  noSelfLoop : ∀ e ∈ c.edges, e.1 ≠ e.2

/-- the feedback-arc heuristic is sound for *every* graph: deleting the returned edges leaves no directed cycle
    (so the function's internal "approx_min_fas has failed" check can never fire) -/
theorem fas_cuts_all_cycles (c : Circuit) (hwf : WF c)
    -- (added) no self-loops: a self-loop is never a "backward" edge of the ordering, so it is never returned, and the
    -- statement is false for `selfLoopCex` below (the Python code raises "approx_min_fas has failed" there)
    (hns : ∀ e ∈ c.edges, e.1 ≠ e.2) :
    isCyclic { c with edges := c.edges.filter (fun e => !(Tx.approxMinFas c).contains e) } = false :=
  AU.fas_cuts c hwf hns

/-- counterexample to `fas_cuts_all_cycles` without `hns`: one node with a self-loop -/
def selfLoopCex : Circuit := { nodes := [("a", { ty := some "buf", out := some true })], edges := [("a", "a")] }
example : WF selfLoopCex := ⟨by decide, by decide, by decide⟩
example : Tx.approxMinFas selfLoopCex = [] ∧
    isCyclic { selfLoopCex with edges := selfLoopCex.edges.filter (fun e => !(Tx.approxMinFas selfLoopCex).contains e) }
      = true := by decide

/-- every returned feedback edge lies on a cycle of the original graph (an acyclic circuit is left uncut) -/
theorem fas_only_cycle_edges (c : Circuit) (hwf : WF c) :
    ∀ e ∈ Tx.approxMinFas c, e ∈ c.edges ∧ (descendants c e.2).contains e.1 = true :=
  AU.fas_sub c

/-- what a successful call returns: an acyclic, lint-clean circuit with the same outputs whose inputs are the
    original inputs plus one auxiliary input `c0_aux_in_f` per cut feedback node -/
theorem acyclic_unroll_shape (c a : Circuit) (ord ordF : Ord) (hord : OrdOK ord) (hordF : OrdOK ordF) (hc : Good c)
    (h : Tx.acyclicUnroll c ord ordF = .ok a) :
    isCyclic a = false ∧ lint a {} ord = .ok ∧
    (∀ x, x ∈ a.outputs ↔ x ∈ c.outputs) ∧
    (∀ x, x ∈ a.inputs ↔ (x ∈ c.inputs ∨ ∃ f ∈ (Tx.approxMinFas c).map (·.1), x = "c0_aux_in_" ++ f)) :=
  AU.shape hord hordF hc.clean.toWF h

/-- **C18.** for every stable state `v` of the original circuit (a consistent valuation of all its nodes): any
    valuation of the unrolled circuit that is consistent, agrees with `v` on the original inputs and sets every
    auxiliary input to the stable value of its feedback node gives every output its stable value.
    One hypothesis was added (counterexample to the original statement: `CG/Proofs/AcycUnrollCex.lean`):
    `hnox` — no node of type `"x"` (an `x` node is unconstrained, each copy of it may take any value).
    (An output named like a node of a copy, `"c<i>_<n>"`, now makes the call fail with ValueError, so `h` excludes it.) -/
theorem stable_state_preserved (c a : Circuit) (ord ordF : Ord) (hord : OrdOK ord) (hordF : OrdOK ordF) (hc : Good c)
    (hnox : ∀ p ∈ c.nodes, p.2.ty ≠ some "x")
    (h : Tx.acyclicUnroll c ord ordF = .ok a) (v : Val) (hv : Consistent c v)
    (w : Val) (hw : Consistent a w) (hin : ∀ i ∈ c.inputs, w i = v i)
    (haux : ∀ f ∈ (Tx.approxMinFas c).map (·.1), w ("c0_aux_in_" ++ f) = v f) :
    ∀ o ∈ c.outputs, w o = v o :=
  AU.preserved hord hordF hc.clean hnox h v hv w hw hin haux

/-- such a valuation of the unrolled circuit exists (the premises of `stable_state_preserved` are satisfiable for
    every stable state) -/
theorem stable_state_realised (c a : Circuit) (ord ordF : Ord) (hord : OrdOK ord) (hordF : OrdOK ordF) (hc : Good c)
    (h : Tx.acyclicUnroll c ord ordF = .ok a) (v : Val) (hv : Consistent c v) :
    ∃ w, Consistent a w ∧ (∀ i ∈ c.inputs, w i = v i) ∧
      (∀ f ∈ (Tx.approxMinFas c).map (·.1), w ("c0_aux_in_" ++ f) = v f) :=
  AU.realised' hord hordF hc.clean.toWF h v

/-- blackboxes are rejected -/
theorem acyclic_unroll_rejects_blackboxes (c : Circuit) (ord ordF : Ord) (h : c.bbs ≠ []) :
    Tx.acyclicUnroll c ord ordF = .error .valueError := by
  unfold Tx.acyclicUnroll
  have : (!c.bbs.isEmpty) = true := by
    cases hb : c.bbs with
    | nil => exact absurd hb h
    | cons _ _ => rfl
  rw [if_pos this]

/-! non-vacuity: an SR-latch-like loop of two nor gates -/
def latch : Circuit :=
  { nodes := [("s", { ty := some "input", out := some false }), ("r", { ty := some "input", out := some false }),
              ("q", { ty := some "nor", out := some true }), ("qn", { ty := some "nor", out := some true })],
    edges := [("r", "q"), ("qn", "q"), ("s", "qn"), ("q", "qn")] }
example : Tx.approxMinFas latch = [("qn", "q")] := by decide
example : (Tx.acyclicUnroll latch id id).toOption.map (fun a => a.nodes.length) = some 14 := by decide
example : Good latch := by
  have ty_cases : ∀ n t, latch.ty? n = some t →
      (n = "s" ∧ t = "input") ∨ (n = "r" ∧ t = "input") ∨ (n = "q" ∧ t = "nor") ∨ (n = "qn" ∧ t = "nor") := by
    intro n t ht
    obtain ⟨p, hp, rfl, hpt⟩ := Tseitin.mem_of_ty latch n t ht
    simp only [latch, List.mem_cons, List.not_mem_nil, or_false] at hp
    rcases hp with rfl | rfl | rfl | rfl <;> cases hpt <;> simp
  refine ⟨⟨⟨by decide, by decide, by decide⟩, by decide, ?_, ?_, ?_, by decide, by decide⟩, rfl, by decide⟩
  all_goals
    intro n t ht hm
    rcases ty_cases n t ht with ⟨rfl, rfl⟩ | ⟨rfl, rfl⟩ | ⟨rfl, rfl⟩ | ⟨rfl, rfl⟩ <;>
      first | exact absurd hm (by decide) | decide
/-- the added hypothesis of `stable_state_preserved` holds for the latch -/
example : (∀ p ∈ latch.nodes, p.2.ty ≠ some "x") := by decide

end CG.C18
