/-
  C16 (continued) — what `remove_unloaded` does on circuits WITH combinational cycles (the property's quantifier is acyclic
  circuits; its statement is not, and the code departs from it there: known finding K42).  Exact characterisation by a
  greatest fixed point, agreement with `Live` on acyclic circuits, and the K42 witness.  Kept in a file of its own because
  the helper lemmas (CG/Proofs/RUCyc*.lean) import CG/Props/C16.lean.  Property theorems only.
-/
import CG.Props.C16
import CG.Proofs.RUCycRun
import CG.Proofs.RUCycAcyc
import CG.Proofs.RUCycDead
namespace CG.C16

/-- the hypotheses of `Good` without acyclicity: a legally wired circuit that may contain combinational cycles -/
structure GoodCyc (c : Circuit) : Prop where
  nodup : c.nodeNames.Nodup
  edgesNodup : c.edges.Nodup
  closed : ∀ e ∈ c.edges, c.has e.1 = true ∧ c.has e.2 = true
  noFaninOnSources : ∀ e ∈ c.edges, c.ty? e.2 ≠ some "input" ∧ c.ty? e.2 ≠ some "bb_output"
  noBBInFanout : ∀ e ∈ c.edges, c.ty? e.1 ≠ some "bb_input"

/-- a set of nodes that "keeps itself alive": every member is an output, a blackbox input pin, a node the flag protects, or
    has a load inside the set -/
def SelfSustaining (c : Circuit) (inputs : Bool) (K : Name → Prop) : Prop :=
  ∀ n, K n → c.has n = true ∧
    (c.isOut n = true ∨ ¬ Removable c inputs n ∨ ∃ m, (n, m) ∈ c.edges ∧ K m)

/-- kept by `remove_unloaded`: member of some self-sustaining set (the greatest one) -/
def Kept (c : Circuit) (inputs : Bool) (n : Name) : Prop := ∃ K, SelfSustaining c inputs K ∧ K n

/-- **C16 on cyclic circuits (what the code does, known finding K42).** for every legally wired circuit, cyclic or not, the
    worklist terminates and deletes exactly the nodes outside the greatest self-sustaining set: a node survives iff it is an
    output, a protected kind, or drives a survivor — so a dead combinational cycle (every member drives another member)
    survives, which is K42; for acyclic circuits this coincides with `Live` (`kept_iff_live_of_acyclic`) -/
theorem remove_unloaded_exact_cyclic (c : Circuit) (inputs : Bool) (ord : Ord) (hord : OrdOK ord) (hg : GoodCyc c) :
    ∃ c' removed, c.removeUnloaded inputs ord = some (c', removed) ∧ removed.Nodup ∧
      (∀ n, n ∈ removed ↔ (c.has n = true ∧ ¬ Kept c inputs n)) ∧
      c'.nodes = c.nodes.filter (fun p => !removed.contains p.1) ∧
      c'.edges = c.edges.filter (fun e => !removed.contains e.1 && !removed.contains e.2) ∧
      c'.bbs = c.bbs ∧ c'.name = c.name :=
  RUC.exact_cyc ⟨hg.1, hg.2, hg.3, hg.4, hg.5⟩ inputs hord

/-- on acyclic circuits the two notions agree: kept = live or not removable -/
theorem kept_iff_live_of_acyclic (c : Circuit) (inputs : Bool) (hg : Good c) (n : Name) (hn : c.has n = true) :
    Kept c inputs n ↔ (Live c n ∨ ¬ Removable c inputs n) :=
  RUC.kept_iff_live inputs hg n hn

/-- the dead cycle of K42 (`g1 = and(a, g2)`, `g2 = buf(g1)`, nothing observed) is kept, and so is the input feeding it -/
def deadCycle : Circuit :=
  { nodes := [("a", { ty := some "input", out := some false }), ("g1", { ty := some "and", out := some false }),
              ("g2", { ty := some "buf", out := some false }), ("o", { ty := some "not", out := some true })],
    edges := [("a", "g1"), ("g2", "g1"), ("g1", "g2"), ("a", "o")] }
theorem dead_cycle_kept : GoodCyc deadCycle ∧ ¬ Live deadCycle "g1" ∧ Kept deadCycle true "g1" ∧
    (deadCycle.removeUnloaded true id).map (·.2) = some [] :=
  ⟨⟨RUC.deadCycle_good.1, RUC.deadCycle_good.2, RUC.deadCycle_good.3, RUC.deadCycle_good.4, RUC.deadCycle_good.5⟩,
    RUC.deadCycle_not_live, RUC.deadCycle_kept, RUC.deadCycle_run⟩

end CG.C16
