/-
  C18 (continued) — total correctness of tx.acyclic_unroll: when the call succeeds, with every added hypothesis shown
  necessary.  Property theorems only; helper lemmas in CG/Proofs/AcycOk*.lean.
-/
import CG.Props.C18
import CG.Proofs.AcycOkMain
import CG.Proofs.AcycOkCex
namespace CG.C18
open Query

/-- no node is named like one of the names `acyclic_unroll` synthesises: an auxiliary input `aux_in_<f>` of a node `f`, or a
    copy `c<i>_<y>` of a node `y` (the names the property text mentions: "one auxiliary input per cut feedback node") -/
def NoSynthClash (c : Circuit) : Prop :=
  (∀ x f, c.has x = true → c.has f = true → x ≠ "aux_in_" ++ f) ∧
  (∀ x y, c.has x = true → (c.has y = true ∨ ∃ f, c.has f = true ∧ y = "aux_in_" ++ f) → ∀ i : Nat,
      x ≠ "c" ++ toString i ++ "_" ++ y)

/-! The first formulation of `acyclic_unroll_ok` (hypotheses as I had guessed them) is FALSE and has been removed from this file; its
    refutation and the corrected statements follow. -/

/-- the hypothesis `hclash` is needed: a good circuit with addable names for which the call raises ValueError -/
theorem acyclic_unroll_ok_needs_hclash :
    ∃ c : Circuit, Good c ∧ (∀ p ∈ c.nodes, p.1 ≠ "" ∧ Circuit.isDigit0 p.1 = false) ∧
      Tx.acyclicUnroll c id id = .error .valueError :=
  ⟨AU.cexClash, AU.cexClash_good, AU.cexClash_names, AU.cexClash_fails⟩

/-! ### corrected statement -/

/-- the part of `NoSynthClash` the construction needs: only the start points and the outputs keep their own name next to
    the copies `c<i>_<y>`, so only they must not be named like a copy (inner nodes may be called anything) -/
def NoSynthClashIO (c : Circuit) : Prop :=
  (∀ x f, c.has x = true → c.has f = true → x ≠ "aux_in_" ++ f) ∧
  (∀ x y, (c.ty? x = some "input" ∨ x ∈ c.outputs) → (c.has y = true ∨ ∃ f, c.has f = true ∧ y = "aux_in_" ++ f) →
      ∀ i : Nat, x ≠ "c" ++ toString i ++ "_" ++ y)

theorem NoSynthClash.io {c : Circuit} (h : NoSynthClash c) : NoSynthClashIO c := by
  refine ⟨h.1, fun x y hx => h.2 x y ?_⟩
  rcases hx with hx | hx
  · exact Circuit.has_of_ty? hx
  · exact mem_outputs_has hx

/-- **C18 (the call succeeds), corrected.**  Three hypotheses were missing in `acyclic_unroll_ok` (`Good` = lint-clean in
    the sense of `LintClean`, no registered blackbox, no self-loop does not exclude them, and each one makes the call
    raise ValueError, see `acyclic_unroll_ok_needs_nobbo` / `_needs_nobbi` / `_needs_nodots`):
    * `hdots` — no node name contains a dot (the final `lint` looks up the blackbox instance before the dot);
    * `hbbo`  — no node has type `bb_output` (such a node is a start point, hence a key of the connection map handed to
      `add_subcircuit`, but it is not an input of the copy);
    * `hbbi`  — no output has type `bb_input` (`connect` refuses a blackbox input pin as the driver of the output buffer).
    The name condition is weakened to `NoSynthClashIO`. -/
theorem acyclic_unroll_ok_io (c : Circuit) (ord ordF : Ord) (hord : OrdOK ord) (hordF : OrdOK ordF) (hc : Good c)
    (hnames : ∀ p ∈ c.nodes, p.1 ≠ "" ∧ Circuit.isDigit0 p.1 = false)
    (hclash : NoSynthClashIO c)
    (hdots : ∀ p ∈ c.nodes, hasDot p.1 = false)
    (hbbo : ∀ n, c.ty? n ≠ some "bb_output")
    (hbbi : ∀ o ∈ c.outputs, c.ty? o ≠ some "bb_input") :
    ∃ a, Tx.acyclicUnroll c ord ordF = .ok a :=
  AU.unroll_ok hord hordF hc.clean hc.nobb hc.noSelfLoop hnames hclash.1 hclash.2 hdots hbbo hbbi

/-- the corrected statement with the original name condition -/
theorem acyclic_unroll_ok' (c : Circuit) (ord ordF : Ord) (hord : OrdOK ord) (hordF : OrdOK ordF) (hc : Good c)
    (hnames : ∀ p ∈ c.nodes, p.1 ≠ "" ∧ Circuit.isDigit0 p.1 = false)
    (hclash : NoSynthClash c)
    (hdots : ∀ p ∈ c.nodes, hasDot p.1 = false)
    (hbbo : ∀ n, c.ty? n ≠ some "bb_output")
    (hbbi : ∀ o ∈ c.outputs, c.ty? o ≠ some "bb_input") :
    ∃ a, Tx.acyclicUnroll c ord ordF = .ok a :=
  acyclic_unroll_ok_io c ord ordF hord hordF hc hnames hclash.io hdots hbbo hbbi

/-- non-vacuity: the SR latch of `CG/Props/C18.lean` satisfies every hypothesis of the corrected statement -/
example : ∃ a, Tx.acyclicUnroll latch id id = .ok a :=
  acyclic_unroll_ok' latch id id AU.ordOK_id AU.ordOK_id AU.latch_good AU.latch_others.1 AU.latch_clash
    AU.latch_others.2.1 (AU.noBBO_of_nodes _ AU.latch_others.2.2.1) AU.latch_others.2.2.2

/-! ### each added hypothesis is needed (all the other hypotheses hold, the call raises ValueError) -/

theorem acyclic_unroll_ok_needs_nobbo :
    ∃ c : Circuit, Good c ∧ (∀ p ∈ c.nodes, p.1 ≠ "" ∧ Circuit.isDigit0 p.1 = false) ∧ NoSynthClash c ∧
      (∀ p ∈ c.nodes, hasDot p.1 = false) ∧ (∀ o ∈ c.outputs, c.ty? o ≠ some "bb_input") ∧
      Tx.acyclicUnroll c id id = .error .valueError :=
  ⟨AU.cexBBO, AU.cexBBO_good, AU.cexBBO_names, AU.cexBBO_clash, AU.cexBBO_others.1, AU.cexBBO_others.2,
    AU.cexBBO_fails⟩

theorem acyclic_unroll_ok_needs_nobbi :
    ∃ c : Circuit, Good c ∧ (∀ p ∈ c.nodes, p.1 ≠ "" ∧ Circuit.isDigit0 p.1 = false) ∧ NoSynthClash c ∧
      (∀ p ∈ c.nodes, hasDot p.1 = false) ∧ (∀ n, c.ty? n ≠ some "bb_output") ∧
      Tx.acyclicUnroll c id id = .error .valueError :=
  ⟨AU.cexBBI, AU.cexBBI_good, AU.cexBBI_names, AU.cexBBI_clash, AU.cexBBI_others.1,
    AU.noBBO_of_nodes _ AU.cexBBI_others.2, AU.cexBBI_fails⟩

theorem acyclic_unroll_ok_needs_nodots :
    ∃ c : Circuit, Good c ∧ (∀ p ∈ c.nodes, p.1 ≠ "" ∧ Circuit.isDigit0 p.1 = false) ∧ NoSynthClash c ∧
      (∀ n, c.ty? n ≠ some "bb_output") ∧ (∀ o ∈ c.outputs, c.ty? o ≠ some "bb_input") ∧
      Tx.acyclicUnroll c id id = .error .valueError :=
  ⟨AU.cexDot, AU.cexDot_good, AU.cexDot_names, AU.cexDot_clash, AU.noBBO_of_nodes _ AU.cexDot_others.1,
    AU.cexDot_others.2, AU.cexDot_fails⟩

/-- `hclash` is needed in the corrected statement as well -/
theorem acyclic_unroll_ok_io_needs_hclash :
    ∃ c : Circuit, Good c ∧ (∀ p ∈ c.nodes, p.1 ≠ "" ∧ Circuit.isDigit0 p.1 = false) ∧
      (∀ p ∈ c.nodes, hasDot p.1 = false) ∧ (∀ n, c.ty? n ≠ some "bb_output") ∧
      (∀ o ∈ c.outputs, c.ty? o ≠ some "bb_input") ∧
      Tx.acyclicUnroll c id id = .error .valueError :=
  ⟨AU.cexClash, AU.cexClash_good, AU.cexClash_names, AU.cexClash_others.1,
    AU.noBBO_of_nodes _ AU.cexClash_others.2.1, AU.cexClash_others.2.2, AU.cexClash_fails⟩

/-- machine-checked refutation of `acyclic_unroll_ok` as first stated -/
theorem acyclic_unroll_ok_false :
    ¬ (∀ (c : Circuit) (ord ordF : Ord), OrdOK ord → OrdOK ordF → Good c →
        (∀ p ∈ c.nodes, p.1 ≠ "" ∧ Circuit.isDigit0 p.1 = false) → NoSynthClash c →
        ∃ a, Tx.acyclicUnroll c ord ordF = .ok a) := by
  intro H
  obtain ⟨a, ha⟩ := H AU.cexBBO id id AU.ordOK_id AU.ordOK_id AU.cexBBO_good AU.cexBBO_names AU.cexBBO_clash
  rw [AU.cexBBO_fails] at ha
  cases ha

end CG.C18
