/-
  C17 (continued) — the decomposition ALGORITHM of tx.supergates (model: CG/SupergatesAlgo.lean), for all circuits: every
  supergate it returns is a single-output induced sub-circuit with pairwise independent inputs, the supergates cover the
  output cones, and every topological listing of them satisfies the whole statement `C17.Spec`.  The first formulations of
  `algo_cover` / `algo_spec` were FALSE for circuits containing a stray node typed `bb_output` (machine-checked
  counterexample below); the corrected statements carry the hypothesis `hbo`, which is shown necessary.
  Property theorems only; helper lemmas in CG/Proofs/SGAlgo*.lean (≈3 k lines: dominator theory over the bidirected cone).
-/
import CG.Props.C17
import CG.SupergatesAlgo
import CG.Proofs.SGAlgoMain
import CG.Proofs.SGAlgoSpec
import CG.Proofs.SGAlgoCex
namespace CG.C17
open Supergates

/-- `sgs` lists the supergates found by the algorithm in an order that is topological for its dependency graph (what
    `nx.topological_sort` returns when the graph is acyclic; which such order, and which of two equal candidates, depends
    on `id()`-hashed sets in Python and is left open here) -/
def TopoOf (c2 : Circuit) (ms : List (Found × Circuit)) (sgs : List Circuit) : Prop :=
  ∃ perm : List (Found × Circuit), perm.Perm ms ∧ sgs = perm.map (·.2) ∧
    ∀ i j (hi : i < perm.length) (hj : j < perm.length),
      (perm[i].1.head, perm[j].1.head) ∈ depEdges c2 ms → i < j

/-- the circuits the algorithm is run on: the result of `limit_fanin(c, 2)` on a lint-clean blackbox-free acyclic circuit -/
structure Limited (c2 : Circuit) : Prop where
  clean : LintClean c2
  nobb : c2.bbs = []
  acyclic : Acyclic c2
  fanin2 : ∀ n, (c2.fanin n).length ≤ 2


/-- `algo_spec` is FALSE as stated: `Limited` does not exclude a node *typed* `bb_output` (lint accepts one whose name
    has no dot, `SGAlgoCex.cex_lint_ok`); `subcircuit(…, modify_io=True)` turns it into an input of every supergate
    containing it, so it is internal to none (clauses `cover` and `ordered` fail).  Counterexample: `bb_output a → buf b`. -/
theorem algo_spec_counterexample :
    ∃ (c2 : Circuit) (outs : List Name) (sgs : List Circuit), Limited c2 ∧ outs.Perm c2.outputs ∧
      (algo c2 outs).cyclic = false ∧ (algo c2 outs).headsDistinct = true ∧ TopoOf c2 (algo c2 outs).sgs sgs ∧
      ¬ Spec c2 sgs := by
  refine ⟨SGAlgoCex.cex, ["b"], (algo SGAlgoCex.cex ["b"]).sgs.map (·.2),
    ⟨SGAlgoCex.cex_clean, SGAlgoCex.cex_nobb, SGAlgoCex.cex_acyclic, SGAlgoCex.cex_fanin2⟩,
    by rw [SGAlgoCex.cex_outputs], SGAlgoCex.cex_flags.1, SGAlgoCex.cex_flags.2,
    ⟨(algo SGAlgoCex.cex ["b"]).sgs, List.Perm.refl _, rfl, ?_⟩, SGAlgoCex.cex_not_spec⟩
  intro i j hi hj h
  rw [SGAlgoCex.cex_depEdges] at h
  exact absurd h List.not_mem_nil

/-- **C17 (the algorithm, for all circuits), corrected**: `algo_spec` with the missing hypothesis `hbo` — no node in
    the cone of an output is typed `bb_output` (the hypothesis `hcyc` is not needed: a topological listing exists
    only if the dependency graph is acyclic). -/
theorem algo_spec_fixed (c2 : Circuit) (hc : Limited c2)
    (hbo : ∀ o ∈ c2.outputs, ∀ n, ReachR c2 n o → c2.ty? n ≠ some "bb_output")
    (outs : List Name) (houts : outs.Perm c2.outputs)
    (hd : (algo c2 outs).headsDistinct = true)
    (sgs : List Circuit) (hs : TopoOf c2 (algo c2 outs).sgs sgs) :
    Spec c2 sgs := by
  obtain ⟨perm, hperm, rfl, htopo⟩ := hs
  exact SGA.algo_spec_fixed c2 hc.clean hc.acyclic hc.fanin2 hbo outs houts hd perm hperm htopo

/-- the added hypothesis `hbo` of `algo_spec_fixed` is also necessary: a node typed `bb_output` in an output cone is
    internal to no supergate, so the `cover` clause fails for it -/
theorem algo_spec_hbo_necessary (c2 : Circuit) (hc : Limited c2) (outs : List Name) (houts : outs.Perm c2.outputs)
    (sgs : List Circuit) (hs : TopoOf c2 (algo c2 outs).sgs sgs) (hspec : Spec c2 sgs) :
    ∀ o ∈ c2.outputs, ∀ n, ReachR c2 n o → c2.ty? n ≠ some "bb_output" := by
  intro o ho n hn hty
  obtain ⟨perm, hperm, rfl, _⟩ := hs
  obtain ⟨sg, hsg, hint⟩ := hspec.cover o ho n hn (by rw [hty]; decide)
  obtain ⟨p, hp, rfl⟩ := List.mem_map.mp hsg
  exact SGA.bb_output_not_internal c2 hc.clean hc.acyclic hc.fanin2 outs houts hty p (hperm.mem_iff.mp hp) hint

/-! ### the clauses one by one (each a theorem in its own right; the first three need neither `hbo` nor distinct heads) -/

theorem algo_single (c2 : Circuit) (hc : Limited c2) (outs : List Name) (houts : outs.Perm c2.outputs) :
    ∀ p ∈ (algo c2 outs).sgs, p.2.outputs.length = 1 :=
  SGA.algo_single c2 hc.clean hc.acyclic hc.fanin2 outs houts

theorem algo_induced (c2 : Circuit) (hc : Limited c2) (outs : List Name) (houts : outs.Perm c2.outputs) :
    ∀ p ∈ (algo c2 outs).sgs, ∀ n ∈ internal p.2, c2.has n = true ∧ p.2.ty? n = c2.ty? n ∧
      (∀ x, x ∈ p.2.fanin n ↔ x ∈ c2.fanin n) :=
  SGA.algo_induced c2 hc.clean hc.acyclic hc.fanin2 outs houts


/-- `algo_cover` is FALSE as stated (same counterexample as `algo_spec_counterexample`: a node typed `bb_output`) -/
theorem algo_cover_counterexample :
    ∃ (c2 : Circuit) (outs : List Name), Limited c2 ∧ outs.Perm c2.outputs ∧
      ¬ (∀ o ∈ c2.outputs, ∀ n, ReachR c2 n o → c2.ty? n ≠ some "input" →
          ∃ p ∈ (algo c2 outs).sgs, n ∈ internal p.2) := by
  refine ⟨SGAlgoCex.cex, ["b"],
    ⟨SGAlgoCex.cex_clean, SGAlgoCex.cex_nobb, SGAlgoCex.cex_acyclic, SGAlgoCex.cex_fanin2⟩,
    by rw [SGAlgoCex.cex_outputs], ?_⟩
  intro h
  obtain ⟨p, hp, hin⟩ := h "b" (by decide) "a" SGAlgoCex.cex_reach SGAlgoCex.cex_ty
  exact SGAlgoCex.cex_not_covered p hp hin

/-- `algo_cover`, corrected: every node of an output cone that is neither typed `input` nor typed `bb_output` is
    internal to a supergate of the result -/
theorem algo_cover_fixed (c2 : Circuit) (hc : Limited c2) (outs : List Name) (houts : outs.Perm c2.outputs) :
    ∀ o ∈ c2.outputs, ∀ n, ReachR c2 n o → c2.ty? n ≠ some "input" → c2.ty? n ≠ some "bb_output" →
      ∃ p ∈ (algo c2 outs).sgs, n ∈ internal p.2 :=
  fun _ ho _ hn hi hb =>
    SGA.algo_cover_fixed c2 hc.clean hc.acyclic hc.fanin2 outs houts ho (SGA.ancR_of_reachR hn) hi hb

theorem algo_independent (c2 : Circuit) (hc : Limited c2) (outs : List Name) (houts : outs.Perm c2.outputs) :
    ∀ p ∈ (algo c2 outs).sgs, ∀ (i j : Nat) (a b : Name), p.2.inputs[i]? = some a → p.2.inputs[j]? = some b → i ≠ j →
      ∀ x, ¬ (ReachR c2 x a ∧ ReachR c2 x b) :=
  SGA.algo_independent c2 hc.clean hc.acyclic hc.fanin2 outs houts

/-! non-vacuity: the reconvergent example of C17.lean satisfies the hypotheses of `algo_spec_fixed`, and the algorithm returns
    the single supergate that the checker example there accepts -/
example : Limited cR :=
  ⟨Limit.lintClean_of_checks cR ⟨by decide, by decide, by decide⟩ (by decide) (by decide) (by decide), rfl,
    ⟨fun n => ["a", "b", "g", "h", "o"].idxOf n, by decide⟩, by
      intro n
      have key : ∀ m ∈ ["g", "h", "o"], (cR.fanin m).length ≤ 2 := by decide
      by_cases h : n ∈ ["g", "h", "o"]
      · exact key n h
      · have : cR.fanin n = [] := by
          unfold Circuit.fanin
          rw [List.map_eq_nil_iff, List.filter_eq_nil_iff]
          intro e he h2
          have hall : ∀ e ∈ cR.edges, e.2 ∈ ["g", "h", "o"] := by decide
          have h3 : e.2 ∈ ["g", "h", "o"] := hall e he
          rw [beq_iff_eq] at h2
          exact h (h2 ▸ h3)
        rw [this]; decide⟩
example : (algo cR ["o"]).headsDistinct = true ∧ (algo cR ["o"]).cyclic = false ∧
    ((algo cR ["o"]).sgs.map (fun p => (p.1.head, p.2.nodeNames))) = [("o", ["o", "g", "h", "a", "b"])] := by
  decide +kernel

end CG.C17
