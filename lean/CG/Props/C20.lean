/-
  C20 — lint decides well-formedness.
  `Violates` is the documented rule list, written independently of the code's control flow and
  iteration order; `lint_iff` says the modelled `utils.lint` raises ValueError exactly then, for every
  set-iteration order and every flag combination, and never leaves with another exception.
-/
import CG.Lint
import CG.Spec
import CG.Props.C05
import CG.Props.C13
import CG.Props.C03
import CG.Props.C18
import CG.Proofs.LintLink
namespace CG.C20

/-- the static tie: tables extracted from the sources are the ones these proofs are about -/
theorem tables_supported : Generated.supported_types = some Expected.supported_types := by decide
theorem tables_lint : Generated.lint_lists = some Expected.lint_lists := by decide

def zeroIn : List String := ["input", "0", "1", "x", "bb_output"]
def singleIn : List String := ["buf", "not", "bb_input"]
def multiIn : List String := ["and", "nand", "or", "nor", "xor", "xnor"]

/-- one node breaks a documented rule -/
def NodeViolates (c : Circuit) (fl : LintFlags) (g : Name) : Prop :=
  match (c.attr? g).getD {} with
  | { ty := none, .. } => True
  | { ty := some t, out := o } =>
    t ∉ Expected.supported_types
    ∨ (hasDot g = true ∧ c.bbs.lookup (dotPrefix g) = none)
    ∨ (t ∈ zeroIn ∧ 0 < (c.fanin g).length)
    ∨ (t = "bb_output" ∧ (1 < (c.fanout g).length ∨ ∃ f ∈ c.fanout g, c.ty? f ≠ some "buf"))
    ∨ (t ∈ singleIn ∧ 1 < (c.fanin g).length)
    ∨ (fl.undriven = true ∧ (t ∈ singleIn ∨ t ∈ multiIn) ∧ (c.fanin g).length = 0)
    ∨ (fl.singleInputGates = true ∧ t ∈ multiIn ∧ (c.fanin g).length < 2)
    ∨ (fl.unloaded = true ∧ o.getD false = false ∧ c.fanout g = [])

/-- a recorded blackbox instance lacks a pin node or has it with the wrong type -/
def PinViolates (c : Circuit) (p : Name × BBox) : Prop :=
  (∃ g ∈ p.2.ins, (c.attr? (p.1 ++ "." ++ g)).bind (·.ty) ≠ some "bb_input")
  ∨ (∃ g ∈ p.2.outs, (c.attr? (p.1 ++ "." ++ g)).bind (·.ty) ≠ some "bb_output")

def Violates (c : Circuit) (fl : LintFlags) : Prop :=
  (∃ g ∈ c.nodeNames, NodeViolates c fl g) ∨ (∃ p ∈ c.bbs, PinViolates c p)

def OrdOK (ord : Ord) : Prop := ∀ l, (ord l).Perm l

private theorem append_ne_nil {α} (a b : List α) : a ++ b ≠ [] ↔ a ≠ [] ∨ b ≠ [] := by
  cases a <;> simp

private theorem evIf_ne_nil (b : Bool) : evIf b ≠ [] ↔ b = true := by
  cases b <;> simp [evIf]

private theorem lintOutcome_eq (ff : Bool) (evs : List Ev) :
    lintOutcome ff evs = if evs = [] then Outcome.ok else Outcome.valueError := by
  cases ff
  · cases evs with
    | nil => simp [lintOutcome]
    | cons e es => cases e; simp [lintOutcome]
  · cases evs with
    | nil => simp [lintOutcome]
    | cons e es => cases e; simp [lintOutcome]

private theorem head_of_perm_singleton {ord : Ord} (h : OrdOK ord) (l : List Name) (hl : l.length = 1) :
    ord l = l := by
  match l, hl with
  | [a], _ =>
    have hp := h [a]
    exact List.perm_singleton.mp hp

private theorem lintTyped_ne_nil (c : Circuit) (fl : LintFlags) (ord : Ord) (h : OrdOK ord)
    (g : Name) (a : Attr) (t : String) :
    lintTyped c fl ord g a t ≠ [] ↔
      (t ∉ Expected.supported_types
      ∨ (hasDot g = true ∧ c.bbs.lookup (dotPrefix g) = none)
      ∨ (t ∈ zeroIn ∧ 0 < (c.fanin g).length)
      ∨ (t = "bb_output" ∧ (1 < (c.fanout g).length ∨ ∃ f ∈ c.fanout g, c.ty? f ≠ some "buf"))
      ∨ (t ∈ singleIn ∧ 1 < (c.fanin g).length)
      ∨ (fl.undriven = true ∧ (t ∈ singleIn ∨ t ∈ multiIn) ∧ (c.fanin g).length = 0)
      ∨ (fl.singleInputGates = true ∧ t ∈ multiIn ∧ (c.fanin g).length < 2)
      ∨ (fl.unloaded = true ∧ a.out.getD false = false ∧ c.fanout g = [])) := by
  have hsup : T.supported = Expected.supported_types := by simp [T.supported, tables_supported]
  have h0 : T.lintL 0 = zeroIn := by simp [T.lintL, tables_lint, Expected.lint_lists, zeroIn]
  have h1 : T.lintL 1 = singleIn := by simp [T.lintL, tables_lint, Expected.lint_lists, singleIn]
  have h2 : T.lintL 2 = multiIn := by simp [T.lintL, tables_lint, Expected.lint_lists, multiIn]
  -- the bb_output block
  have hbb : (if (t == "bb_output") = true then lintBBOutLoads c ord (c.fanout g)
      else []) ≠ [] ↔ (t = "bb_output" ∧ (1 < (c.fanout g).length ∨ ∃ f ∈ c.fanout g, c.ty? f ≠ some "buf")) := by
    by_cases ht : t = "bb_output"
    · subst ht
      simp only [beq_self_eq_true, if_true, true_and, lintBBOutLoads]
      rcases Nat.lt_trichotomy (c.fanout g).length 1 with hlt | heq | hgt
      · have : c.fanout g = [] := by
          cases hfo : c.fanout g with
          | nil => rfl
          | cons x xs => simp [hfo] at hlt
        have hp := h (c.fanout g)
        rw [this] at hp ⊢
        have : ord [] = [] := List.perm_nil.mp hp
        simp [this, evIf]
      · have he := head_of_perm_singleton h _ heq
        rw [he]
        match hfo : c.fanout g, heq with
        | [f], _ =>
          simp [evIf_ne_nil, evIf]
      · constructor
        · intro _; exact Or.inl hgt
        · intro _
          have : evIf (decide ((c.fanout g).length > 1)) ≠ [] := by
            rw [evIf_ne_nil]; simpa using hgt
          intro hnil
          exact this (List.append_eq_nil_iff.mp hnil).1
    · have : (t == "bb_output") = false := by simpa using ht
      simp [this, ht]
  unfold lintTyped
  simp only [append_ne_nil, evIf_ne_nil, hsup, h0, h1, h2]
  rw [hbb]
  simp only [Bool.and_eq_true, and_assoc, Bool.or_eq_true, Bool.not_eq_true', List.contains_eq_mem,
    decide_eq_true_eq, decide_eq_false_iff_not, Option.isNone_iff_eq_none, List.isEmpty_iff,
    gt_iff_lt, Nat.lt_one_iff, or_assoc]

theorem lintNode_ne_nil (c : Circuit) (fl : LintFlags) (ord : Ord) (h : OrdOK ord) (g : Name) :
    lintNode c fl ord g ≠ [] ↔ NodeViolates c fl g := by
  unfold lintNode NodeViolates
  rcases hx : (c.attr? g).getD {} with ⟨ty, out⟩
  cases ty with
  | none => simp
  | some t =>
    simp only
    exact lintTyped_ne_nil c fl ord h g _ t

theorem lintPin_ne_nil (c : Circuit) (want : String) (pin : Name) :
    lintPin c want pin ≠ [] ↔ (c.attr? pin).bind (·.ty) ≠ some want := by
  unfold lintPin
  cases c.attr? pin with
  | none => simp
  | some a => simp [evIf_ne_nil]

private theorem flatMap_ne_nil {α β} (l : List α) (f : α → List β) :
    l.flatMap f ≠ [] ↔ ∃ x ∈ l, f x ≠ [] := by
  induction l with
  | nil => simp
  | cons a l ih => simp only [List.flatMap_cons, append_ne_nil, ih, List.mem_cons, exists_eq_or_imp]

theorem lintBB_ne_nil (c : Circuit) (ord : Ord) (h : OrdOK ord) (p : Name × BBox) :
    lintBB c ord p ≠ [] ↔ PinViolates c p := by
  unfold lintBB PinViolates
  simp only [append_ne_nil, flatMap_ne_nil, lintPin_ne_nil]
  constructor
  · rintro (⟨x, hx, hv⟩ | ⟨x, hx, hv⟩)
    · exact Or.inl ⟨x, (h _).mem_iff.mp hx, hv⟩
    · exact Or.inr ⟨x, (h _).mem_iff.mp hx, hv⟩
  · rintro (⟨x, hx, hv⟩ | ⟨x, hx, hv⟩)
    · exact Or.inl ⟨x, (h _).mem_iff.mpr hx, hv⟩
    · exact Or.inr ⟨x, (h _).mem_iff.mpr hx, hv⟩

/-- **C20 (first half).** For every circuit (well-formed or not), every flag combination and every
    set-iteration order, lint raises ValueError exactly when a documented rule is violated … -/
theorem lint_iff (c : Circuit) (fl : LintFlags) (ord : Ord) (h : OrdOK ord) :
    lint c fl ord = Outcome.valueError ↔ Violates c fl := by
  unfold lint Violates lintEvents
  rw [lintOutcome_eq]
  have key : ((ord c.nodeNames).flatMap (lintNode c fl ord) ++ c.bbs.flatMap (lintBB c ord)) ≠ [] ↔
      ((∃ g ∈ c.nodeNames, NodeViolates c fl g) ∨ (∃ p ∈ c.bbs, PinViolates c p)) := by
    simp only [append_ne_nil, flatMap_ne_nil, lintNode_ne_nil c fl ord h, lintBB_ne_nil c ord h]
    constructor
    · rintro (⟨x, hx, hv⟩ | hb)
      · exact Or.inl ⟨x, (h _).mem_iff.mp hx, hv⟩
      · exact Or.inr hb
    · rintro (⟨x, hx, hv⟩ | hb)
      · exact Or.inl ⟨x, (h _).mem_iff.mpr hx, hv⟩
      · exact Or.inr hb
  by_cases hnil : ((ord c.nodeNames).flatMap (lintNode c fl ord) ++ c.bbs.flatMap (lintBB c ord)) = []
  · simp only [hnil, if_true]
    constructor
    · intro hc; cases hc
    · intro hv; exact absurd hnil (key.mpr hv)
  · simp only [hnil, if_false, true_iff]
    exact key.mp hnil

/-- … and otherwise returns normally: no other exception class can escape. -/
theorem lint_ok_or_valueError (c : Circuit) (fl : LintFlags) (ord : Ord) :
    lint c fl ord = Outcome.ok ∨ lint c fl ord = Outcome.valueError := by
  unfold lint
  rw [lintOutcome_eq]
  split <;> simp

/-- the verdict does not depend on the set-iteration order or on `fail_fast` -/
theorem lint_order_irrelevant (c : Circuit) (fl : LintFlags) (o1 o2 : Ord) (h1 : OrdOK o1) (h2 : OrdOK o2)
    (ff : Bool) : lint c fl o1 = lint c { fl with failFast := ff } o2 := by
  have a := lint_iff c fl o1 h1
  have b := lint_iff c { fl with failFast := ff } o2 h2
  have hv : Violates c fl ↔ Violates c { fl with failFast := ff } := by
    unfold Violates NodeViolates; rfl
  rcases lint_ok_or_valueError c fl o1 with h | h <;>
    rcases lint_ok_or_valueError c { fl with failFast := ff } o2 with h' | h'
  · rw [h, h']
  · exfalso; have := a.mpr (hv.mpr (b.mp h')); rw [h] at this; cases this
  · exfalso; have := b.mpr (hv.mp (a.mp h)); rw [h'] at this; cases this
  · rw [h, h']

/-! ### second half: what the library produces passes lint

`LintClean` (CG/Spec.lean) is the specification-level notion of a legally wired circuit that the transform theorems
(C04, C05, C09, C10, C13, C18 …) establish for their results.  The theorems below connect it with the linter model:
a `LintClean` circuit whose blackbox registry matches its pin nodes is accepted by `lint` with default flags, for every
iteration order; conversely acceptance implies every `LintClean` clause that lint looks at. -/

/-- the registry and the dotted node names agree: every dotted node belongs to a recorded instance and every recorded
    instance has all its pin nodes with the right types -/
def RegistryOK (c : Circuit) : Prop :=
  (∀ g ∈ c.nodeNames, hasDot g = true → c.bbs.lookup (dotPrefix g) ≠ none) ∧ ∀ p ∈ c.bbs, ¬ PinViolates c p

/-- glue: a node with a known type violates a rule iff one of the listed clauses holds -/
private theorem nodeViolates_of_attr {c : Circuit} {fl : LintFlags} {g : Name} {a : Attr} {t : String}
    (ha : c.attr? g = some a) (ht : a.ty = some t) :
    NodeViolates c fl g ↔
      (t ∉ Expected.supported_types
      ∨ (hasDot g = true ∧ c.bbs.lookup (dotPrefix g) = none)
      ∨ (t ∈ zeroIn ∧ 0 < (c.fanin g).length)
      ∨ (t = "bb_output" ∧ (1 < (c.fanout g).length ∨ ∃ f ∈ c.fanout g, c.ty? f ≠ some "buf"))
      ∨ (t ∈ singleIn ∧ 1 < (c.fanin g).length)
      ∨ (fl.undriven = true ∧ (t ∈ singleIn ∨ t ∈ multiIn) ∧ (c.fanin g).length = 0)
      ∨ (fl.singleInputGates = true ∧ t ∈ multiIn ∧ (c.fanin g).length < 2)
      ∨ (fl.unloaded = true ∧ a.out.getD false = false ∧ c.fanout g = [])) := by
  unfold NodeViolates
  rw [ha]
  obtain ⟨ty, o⟩ := a
  simp only at ht
  subst ht
  exact Iff.rfl

private theorem nodeViolates_of_untyped {c : Circuit} {fl : LintFlags} {g : Name} {a : Attr}
    (ha : c.attr? g = some a) (ht : a.ty = none) : NodeViolates c fl g := by
  unfold NodeViolates
  rw [ha]
  obtain ⟨ty, o⟩ := a
  simp only at ht
  subst ht
  trivial

/-- glue: the first clause of `RegistryOK` is the helper-level predicate `LintLink.DotsRegistered` -/
theorem registryOK_iff (c : Circuit) :
    RegistryOK c ↔ LintLink.DotsRegistered c ∧ ∀ p ∈ c.bbs, ¬ PinViolates c p := Iff.rfl

/-- a lint-clean circuit with a consistent registry breaks no rule under the default flags -/
theorem not_violates_of_clean (c : Circuit) (hc : LintClean c) (hr : RegistryOK c) : ¬ Violates c {} := by
  rintro (⟨g, hg, hv⟩ | ⟨p, hp, hv⟩)
  · have hhas : c.has g = true := (Circuit.has_iff_mem c g).2 hg
    obtain ⟨a, ha⟩ := Limit.attr_of_has hhas
    obtain ⟨t, ht, hsup⟩ := hc.typed _ (Circuit.attr?_mem ha)
    have hty : c.ty? g = some t := by unfold Circuit.ty?; rw [ha]; exact ht
    rw [nodeViolates_of_attr ha ht] at hv
    rcases hv with h0 | ⟨h1, h2⟩ | ⟨h1, h2⟩ | ⟨h1, h2⟩ | ⟨h1, h2⟩ | ⟨_, h1, h2⟩ | ⟨h1, _⟩ | ⟨h1, _⟩
    · exact h0 hsup
    · exact hr.1 g hg h1 h2
    · rw [hc.noFanin g t hty h1] at h2
      exact absurd h2 (by decide)
    · subst h1
      rcases h2 with h2 | ⟨f, hf, h2⟩
      · cases hfo : c.fanout g with
        | nil => rw [hfo] at h2; exact absurd h2 (by decide)
        | cons f fs =>
          have he : (g, f) ∈ c.edges := Circuit.mem_fanout.mp (by rw [hfo]; exact List.mem_cons_self)
          have : (c.fanout g).length ≤ 1 := (hc.bbOut (g, f) he hty).2
          omega
      · have he : (g, f) ∈ c.edges := Circuit.mem_fanout.mp hf
        exact h2 (hc.bbOut (g, f) he hty).1
    · have := hc.single g t hty h1
      omega
    · rcases h1 with h1 | h1
      · have := hc.single g t hty h1
        omega
      · have := hc.multi g t hty h1
        omega
    · cases h1
    · cases h1
  · exact hr.2 p hp hv

/-- **C20 (second half, link).** a specification-level lint-clean circuit with a consistent registry passes `lint`
    (default flags: undriven=True, unloaded=False, single_input_gates=False), for every set-iteration order -/
theorem lint_accepts (c : Circuit) (ord : Ord) (h : OrdOK ord) (hc : LintClean c) (hr : RegistryOK c) :
    lint c {} ord = Outcome.ok := by
  rcases lint_ok_or_valueError c {} ord with hok | hbad
  · exact hok
  · exact absurd ((lint_iff c {} ord h).mp hbad) (not_violates_of_clean c hc hr)

/-- conversely, what lint accepts is lint-clean in the sense of the specification, except for the one clause lint does
    not look at (a blackbox input pin with fan-out, cf. known finding K22) -/
theorem lintClean_of_lint_ok (c : Circuit) (ord : Ord) (h : OrdOK ord) (hwf : WF c)
    (hnb : ∀ e ∈ c.edges, c.ty? e.1 ≠ some "bb_input") (hok : lint c {} ord = Outcome.ok) :
    LintClean c ∧ RegistryOK c := by
  have hnv : ¬ Violates c {} := fun hv => by
    have := (lint_iff c {} ord h).mpr hv
    rw [hok] at this
    cases this
  have hnode : ∀ g, c.has g = true → ¬ NodeViolates c {} g :=
    fun g hg hv => hnv (Or.inl ⟨g, (Circuit.has_iff_mem c g).1 hg, hv⟩)
  have hpin : ∀ p ∈ c.bbs, ¬ PinViolates c p := fun p hp hv => hnv (Or.inr ⟨p, hp, hv⟩)
  -- every clause lint checks, for a node of known type
  have key : ∀ g t, c.ty? g = some t →
      t ∈ Expected.supported_types
      ∧ (hasDot g = true → c.bbs.lookup (dotPrefix g) ≠ none)
      ∧ (t ∈ zeroIn → c.fanin g = [])
      ∧ (t = "bb_output" → (c.fanout g).length ≤ 1 ∧ ∀ f ∈ c.fanout g, c.ty? f = some "buf")
      ∧ (t ∈ singleIn → (c.fanin g).length = 1)
      ∧ (t ∈ multiIn → 1 ≤ (c.fanin g).length) := by
    intro g t hty
    have hhas := Limit.has_of_ty hty
    obtain ⟨a, ha⟩ := Limit.attr_of_has hhas
    have ht : a.ty = some t := by unfold Circuit.ty? at hty; rw [ha] at hty; exact hty
    have hv := hnode g hhas
    rw [nodeViolates_of_attr ha ht] at hv
    refine ⟨?_, ?_, ?_, ?_, ?_, ?_⟩
    · exact Classical.byContradiction fun h0 => hv (Or.inl h0)
    · intro h1 h2
      exact hv (Or.inr (Or.inl ⟨h1, h2⟩))
    · intro h1
      cases hfi : c.fanin g with
      | nil => rfl
      | cons x xs =>
        exact absurd (Or.inr (Or.inr (Or.inl ⟨h1, by rw [hfi]; simp⟩))) hv
    · intro h1
      refine ⟨?_, ?_⟩
      · apply Nat.le_of_not_lt
        intro h2
        exact hv (Or.inr (Or.inr (Or.inr (Or.inl ⟨h1, Or.inl h2⟩))))
      · intro f hf
        exact Classical.byContradiction fun h2 =>
          hv (Or.inr (Or.inr (Or.inr (Or.inl ⟨h1, Or.inr ⟨f, hf, h2⟩⟩))))
    · intro h1
      have a1 : ¬ 1 < (c.fanin g).length := fun h2 =>
        hv (Or.inr (Or.inr (Or.inr (Or.inr (Or.inl ⟨h1, h2⟩)))))
      have a2 : ¬ (c.fanin g).length = 0 := fun h2 =>
        hv (Or.inr (Or.inr (Or.inr (Or.inr (Or.inr (Or.inl ⟨rfl, Or.inl h1, h2⟩))))))
      omega
    · intro h1
      have a2 : ¬ (c.fanin g).length = 0 := fun h2 =>
        hv (Or.inr (Or.inr (Or.inr (Or.inr (Or.inr (Or.inl ⟨rfl, Or.inr h1, h2⟩))))))
      omega
  refine ⟨⟨hwf, ?_, ?_, ?_, ?_, ?_, hnb⟩, ?_, hpin⟩
  · intro p hp
    have ha : c.attr? p.1 = some p.2 := Circuit.attr?_of_mem hwf.nodup (by exact hp)
    cases hty : p.2.ty with
    | none => exact absurd (nodeViolates_of_untyped ha hty) (hnode p.1 (Limit.has_of_attr ha))
    | some t =>
      have : c.ty? p.1 = some t := by unfold Circuit.ty?; rw [ha]; exact hty
      exact ⟨t, rfl, (key p.1 t this).1⟩
  · intro n t hty hs
    exact (key n t hty).2.2.1 hs
  · intro n t hty hs
    exact (key n t hty).2.2.2.2.1 hs
  · intro n t hty hs
    exact (key n t hty).2.2.2.2.2 hs
  · intro e he hty
    have k := (key e.1 _ hty).2.2.2.1 rfl
    exact ⟨k.2 e.2 (Circuit.mem_fanout.mpr he), k.1⟩
  · intro g hg hd
    have hhas : c.has g = true := (Circuit.has_iff_mem c g).2 hg
    obtain ⟨a, ha⟩ := Limit.attr_of_has hhas
    cases hty : a.ty with
    | none => exact absurd (nodeViolates_of_untyped ha hty) (hnode g hhas)
    | some t =>
      have : c.ty? g = some t := by unfold Circuit.ty?; rw [ha]; exact hty
      exact (key g t this).2.1 hd

/-- witness for `lint_misses_bb_input_fanout`: the blackbox input pin `u.i` drives the buffer `o` -/
def bbFan : Circuit :=
  { nodes := [("a", { ty := some "input", out := some false }), ("u.i", { ty := some "bb_input", out := some false }),
              ("o", { ty := some "buf", out := some true })],
    edges := [("a", "u.i"), ("u.i", "o")], bbs := [("u", { name := "ff", ins := ["i"], outs := [] })] }

/-- the clause lint does not look at is really not looked at: a circuit that lint accepts and that is not `LintClean` -/
theorem lint_misses_bb_input_fanout :
    ∃ c : Circuit, WF c ∧ lint c {} id = Outcome.ok ∧ ¬ LintClean c := by
  refine ⟨bbFan, ⟨by decide, by decide, by decide⟩, by decide, fun hcl => ?_⟩
  exact absurd rfl (hcl.noBBInFanout ("u.i", "o") (by decide))

/-- glue: `RegistryOK` survives an extension by nodes named after old nodes (`LintLink.DotExt`) that keeps the
    attributes of the old nodes -/
theorem registryOK_of_dotExt {c c' : Circuit} (hr : RegistryOK c) (hd : LintLink.DotExt c c')
    (hattr : ∀ n, c.has n = true → c'.attr? n = c.attr? n) : RegistryOK c' := by
  have hkeep : ∀ pin want, (c.attr? pin).bind (·.ty) = some want → (c'.attr? pin).bind (·.ty) = some want := by
    intro pin want hp
    cases ha : c.attr? pin with
    | none => rw [ha] at hp; cases hp
    | some a => rw [hattr pin (Limit.has_of_attr ha), ha]; rw [ha] at hp; exact hp
  refine ⟨hd.registered hr.1, fun p hp hv => ?_⟩
  rw [hd.bbs] at hp
  apply hr.2 p hp
  rcases hv with ⟨g, hg, hv⟩ | ⟨g, hg, hv⟩
  · exact Or.inl ⟨g, hg, fun hc => hv (hkeep _ _ hc)⟩
  · exact Or.inr ⟨g, hg, fun hc => hv (hkeep _ _ hc)⟩

/-- **C20 (second half, transforms).** the result of `limit_fanin` / `limit_fanout` on a lint-clean circuit passes lint -/
theorem limit_fanin_passes_lint (c : Circuit) (k : Nat) (hk : 2 ≤ k) (ord ord' : Ord) (hord : OrdOK ord) (hord' : OrdOK ord')
    (hc : LintClean c) (hr : RegistryOK c) (hname : ∀ n, k < (c.fanin n).length → Circuit.isDigit0 n = false) :
    ∃ c', Tx.limitFanin c k ord = .ok c' ∧ lint c' {} ord' = Outcome.ok := by
  obtain ⟨c', hrun, _, _, _, hattr, hcl, _⟩ := C05.limit_fanin_spec c k hk ord hord hc hname
  exact ⟨c', hrun, lint_accepts c' ord' hord' hcl
    (registryOK_of_dotExt hr (LintLink.limitFanin_dotExt c c' k ord hord hrun) hattr)⟩

theorem limit_fanout_passes_lint (c : Circuit) (k : Nat) (hk : 2 ≤ k) (ord ord' : Ord) (hord : OrdOK ord) (hord' : OrdOK ord')
    (hc : LintClean c) (hr : RegistryOK c) (hname : ∀ n, k < (c.fanout n).length → Circuit.isDigit0 n = false) :
    ∃ c', Tx.limitFanout c k ord = .ok c' ∧ lint c' {} ord' = Outcome.ok := by
  obtain ⟨c', hrun, _, _, _, hattr, hcl, _⟩ := C05.limit_fanout_spec c k hk ord hord hc hname
  exact ⟨c', hrun, lint_accepts c' ord' hord' hcl
    (registryOK_of_dotExt hr (LintLink.limitFanout_dotExt c c' k ord hord hrun) hattr)⟩

/-- glue: without blackboxes and dotted names the registry is trivially consistent -/
theorem registryOK_of_noDots {c : Circuit} (h : LintLink.NoDots c) : RegistryOK c :=
  ⟨h.registered, fun p hp => by rw [h.bbs] at hp; cases hp⟩

/-- **C20 (second half, generators).** every arithmetic block of `logic.py` passes lint, for every width -/
theorem logic_blocks_pass_lint (ord : Ord) (hord : OrdOK ord) :
    (∃ c, Logic.halfAdder = .ok c ∧ lint c {} ord = Outcome.ok) ∧
    (∃ c, Logic.fullAdder = .ok c ∧ lint c {} ord = Outcome.ok) ∧
    (∀ w ci co, ∃ c, Logic.adder w ci co = .ok c ∧ lint c {} ord = Outcome.ok) ∧
    (∀ w, 1 ≤ w → ∃ c, Logic.mux w = .ok c ∧ lint c {} ord = Outcome.ok) ∧
    (∀ w, 1 ≤ w → ∃ c, Logic.popcount w = .ok c ∧ lint c {} ord = Outcome.ok) := by
  refine ⟨?_, ?_, fun w ci co => ?_, fun w hw => ?_, fun w hw => ?_⟩
  · obtain ⟨c, hrun, hcl, _⟩ := C13.half_adder_correct
    exact ⟨c, hrun, lint_accepts c ord hord hcl (registryOK_of_noDots (LintLink.noDots_halfAdder c hrun))⟩
  · obtain ⟨c, hrun, hcl, _⟩ := C13.full_adder_correct
    exact ⟨c, hrun, lint_accepts c ord hord hcl (registryOK_of_noDots (LintLink.noDots_fullAdder c hrun))⟩
  · obtain ⟨c, hrun, hcl, _⟩ := C13.adder_correct w ci co
    exact ⟨c, hrun, lint_accepts c ord hord hcl (registryOK_of_noDots (LintLink.noDots_adder w ci co c hrun))⟩
  · obtain ⟨c, k, _, hrun, hcl, _⟩ := C13.mux_correct w hw
    exact ⟨c, hrun, lint_accepts c ord hord hcl (registryOK_of_noDots (LintLink.noDots_mux w c hrun))⟩
  · obtain ⟨c, m, hrun, hcl, _⟩ := C13.popcount_correct w hw
    exact ⟨c, hrun, lint_accepts c ord hord hcl (registryOK_of_noDots (LintLink.noDots_popcount w c hrun))⟩

/-! ### optional extras: further producers of lint-clean circuits -/

/-- glue: `RegistryOK` only depends on the graph, not on list orders -/
theorem registryOK_of_same {a b : Circuit} (h : LintLink.Same a b) (hr : RegistryOK a) : RegistryOK b := by
  refine ⟨h.registered hr.1, fun p hp hv => hr.2 p ((h.bbs p).2 hp) ?_⟩
  unfold PinViolates at hv ⊢
  simp only [h.attr]
  exact hv

/-- lint's verdict depends only on the graph: a well-formed circuit with the same attributes, wires and registry
    entries as a lint-clean one (in any list order) passes lint -/
theorem same_graph_passes_lint (a b : Circuit) (ord : Ord) (hord : OrdOK ord) (hattr : ∀ n, a.attr? n = b.attr? n)
    (hedges : ∀ e, e ∈ a.edges ↔ e ∈ b.edges) (hbbs : ∀ q, q ∈ a.bbs ↔ q ∈ b.bbs) (hwf : WF b)
    (hc : LintClean a) (hr : RegistryOK a) : lint b {} ord = Outcome.ok :=
  lint_accepts b ord hord (LintLink.Same.lintClean ⟨hattr, hedges, hbbs⟩ hwf hc)
    (registryOK_of_same ⟨hattr, hedges, hbbs⟩ hr)

/-- a circuit the Verilog writer is specified for (`C03.Writable`) has a consistent registry -/
theorem registryOK_of_writable {c : Circuit} (hc : C03.Writable c) : RegistryOK c := by
  have hplain : ∀ n, C03.PlainName n → hasDot n = false := by
    intro n hn
    have := hn.2.2.1
    unfold hasDot
    simpa using this
  refine ⟨fun g hg hd => ?_, fun q hq hv => ?_⟩
  · have hhas : c.has g = true := (Circuit.has_iff_mem c g).2 hg
    obtain ⟨a, ha⟩ := Limit.attr_of_has hhas
    have hmem := Circuit.attr?_mem ha
    by_cases hpin : a.ty = some "bb_input" ∨ a.ty = some "bb_output"
    · obtain ⟨q, hq, g', hname, _⟩ := hc.pins (g, a) hmem hpin
      have hq1 : hasDot q.1 = false := hplain _ (hc.pinsPresent q hq).2.2.1
      simp only at hname
      rw [hname, LintLink.dotPrefix_pin q.1 g' hq1, LintLink.lookup_ne_none_iff]
      exact ⟨q, hq, rfl⟩
    · have hn := hplain g (hc.names (g, a) hmem ⟨fun h => hpin (Or.inl h), fun h => hpin (Or.inr h)⟩)
      rw [hn] at hd
      cases hd
  · obtain ⟨h1, h2, _⟩ := hc.pinsPresent q hq
    rcases hv with ⟨g, hg, hv⟩ | ⟨g, hg, hv⟩
    · exact hv (h1 g hg)
    · exact hv (h2 g hg)

/-- a `C03.Writable` circuit passes lint -/
theorem writable_passes_lint (c : Circuit) (ord : Ord) (hord : OrdOK ord) (hc : C03.Writable c) :
    lint c {} ord = Outcome.ok :=
  lint_accepts c ord hord hc.clean (registryOK_of_writable hc)

/-- **C03 corollary.** what the Verilog reader builds from the writer's output for a writable, constant-free circuit
    passes lint, for every emission order, every reader order and every lint iteration order -/
theorem roundtrip_passes_lint (c : Circuit) (ord ord' ord'' : Ord) (hord : OrdOK ord) (hord' : OrdOK ord')
    (hord'' : OrdOK ord'') (hc : C03.Writable c)
    (hnc : ∀ p ∈ c.nodes, p.2.ty ≠ some "0" ∧ p.2.ty ≠ some "1" ∧ p.2.ty ≠ some "x") :
    ∃ wm c', Verilog.toWModule c false ord = .ok wm ∧ Verilog.transform wm.toModule (C03.bbDefs c) ord' = .ok c' ∧
      lint c' {} ord'' = Outcome.ok := by
  obtain ⟨wm, c', hw, ht, _, hattr, hedges, hbbs, hwf⟩ := C03.roundtrip_struct c ord ord' hord hord' hc hnc
  exact ⟨wm, c', hw, ht, same_graph_passes_lint c c' ord'' hord'' hattr hedges hbbs hwf hc.clean
    (registryOK_of_writable hc)⟩

/-- **C18 corollary.** the result of `acyclic_unroll` passes lint for every lint iteration order (C18 states it for the
    order the transform itself was run with) -/
theorem acyclic_unroll_passes_lint (c a : Circuit) (ord ordF ord' : Ord) (hord : OrdOK ord) (hordF : OrdOK ordF)
    (hord' : OrdOK ord') (hc : C18.Good c) (h : Tx.acyclicUnroll c ord ordF = .ok a) :
    lint a {} ord' = Outcome.ok := by
  have h1 : lint a {} ord = Outcome.ok := (C18.acyclic_unroll_shape c a ord ordF hord hordF hc h).2.1
  rw [← h1]
  exact lint_order_irrelevant a {} ord' ord hord' hord true

/-- why there is no `miter_passes_lint` under the hypotheses of C04: `add_subcircuit` turns the inputs of both copies
    into buffers, and an input that is not among the tied startpoints stays an undriven buffer, which lint rejects.
    Here `mitC` is lint-clean and blackbox-free, the startpoint `a` is a shared input, the endpoint `g` a shared node,
    the call succeeds — and the miter fails lint because `c0_b` / `c1_b` have no driver -/
def mitC : Circuit :=
  { nodes := [("a", { ty := some "input", out := some false }), ("b", { ty := some "input", out := some false }),
              ("g", { ty := some "and", out := some true })],
    edges := [("a", "g"), ("b", "g")] }
theorem miter_may_fail_lint :
    LintClean mitC ∧ mitC.bbs = [] ∧ "a" ∈ mitC.inputs ∧
    (Tx.miter mitC (some mitC) (some ["a"]) (some ["g"]) id).toOption.map (fun m => lint m {} id)
      = some Outcome.valueError ∧
    (Tx.miter mitC (some mitC) (some ["a", "b"]) (some ["g"]) id).toOption.map (fun m => lint m {} id)
      = some Outcome.ok :=
  ⟨Limit.lintClean_of_checks mitC ⟨by decide, by decide, by decide⟩ (by decide) (by decide) (by decide),
    rfl, by decide, by decide, by decide⟩

/-! non-vacuity: a concrete ill-formed graph (fan-in on a blackbox output) and a clean one -/
def bad : Circuit :=
  { nodes := [("a", { ty := some "input", out := some false }), ("u.q", { ty := some "bb_output", out := some false })],
    edges := [("a", "u.q")], bbs := [("u", { name := "ff", ins := [], outs := ["q"] })] }
example : lint bad {} id = Outcome.valueError := by decide
example : Violates bad {} := Or.inl ⟨"u.q", by decide, by
  unfold NodeViolates; simp [bad, Circuit.attr?, List.lookup]; decide⟩
def good : Circuit :=
  { nodes := [("a", { ty := some "input", out := some false }), ("o", { ty := some "not", out := some true })],
    edges := [("a", "o")] }
example : lint good {} id = Outcome.ok := by decide

end CG.C20
