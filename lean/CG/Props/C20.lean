/-
  C20 — lint decides well-formedness.
  `Violates` is the documented rule list, written independently of the code's control flow and
  iteration order; `lint_iff` says the modelled `utils.lint` raises ValueError exactly then, for every
  set-iteration order and every flag combination, and never leaves with another exception.
-/
import CG.Lint
namespace CG.C20

/-- the static tie: tables extracted from the sources are the ones these proofs are about -/
theorem tables_supported : Generated.supported_types = some Expected.supported_types := by decide
theorem tables_lint : Generated.lint_lists = some Expected.lint_lists := by decide

def zeroIn : List String := ["input", "0", "1", "x", "bb_output"]
def singleIn : List String := ["buf", "not", "bb_input"]
def multiIn : List String := ["and", "nand", "or", "nor", "xor", "xnor"]

/-- one node breaks a documented rule -/
def NodeViolates (c : Circuit) (fl : LintFlags) (g : Name) : Prop :=
  match (c.attr? g).getD {} with
  | { ty := none, .. } => True
  | { ty := some t, out := o } =>
    t ∉ Expected.supported_types
    ∨ (hasDot g = true ∧ c.bbs.lookup (dotPrefix g) = none)
    ∨ (t ∈ zeroIn ∧ 0 < (c.fanin g).length)
    ∨ (t = "bb_output" ∧ (1 < (c.fanout g).length ∨ ∃ f ∈ c.fanout g, c.ty? f ≠ some "buf"))
    ∨ (t ∈ singleIn ∧ 1 < (c.fanin g).length)
    ∨ (fl.undriven = true ∧ (t ∈ singleIn ∨ t ∈ multiIn) ∧ (c.fanin g).length = 0)
    ∨ (fl.singleInputGates = true ∧ t ∈ multiIn ∧ (c.fanin g).length < 2)
    ∨ (fl.unloaded = true ∧ o.getD false = false ∧ c.fanout g = [])

/-- a recorded blackbox instance lacks a pin node or has it with the wrong type -/
def PinViolates (c : Circuit) (p : Name × BBox) : Prop :=
  (∃ g ∈ p.2.ins, (c.attr? (p.1 ++ "." ++ g)).bind (·.ty) ≠ some "bb_input")
  ∨ (∃ g ∈ p.2.outs, (c.attr? (p.1 ++ "." ++ g)).bind (·.ty) ≠ some "bb_output")

def Violates (c : Circuit) (fl : LintFlags) : Prop :=
  (∃ g ∈ c.nodeNames, NodeViolates c fl g) ∨ (∃ p ∈ c.bbs, PinViolates c p)

def OrdOK (ord : Ord) : Prop := ∀ l, (ord l).Perm l

private theorem append_ne_nil {α} (a b : List α) : a ++ b ≠ [] ↔ a ≠ [] ∨ b ≠ [] := by
  cases a <;> simp

private theorem evIf_ne_nil (b : Bool) : evIf b ≠ [] ↔ b = true := by
  cases b <;> simp [evIf]

private theorem lintOutcome_eq (ff : Bool) (evs : List Ev) :
    lintOutcome ff evs = if evs = [] then Outcome.ok else Outcome.valueError := by
  cases ff
  · cases evs with
    | nil => simp [lintOutcome]
    | cons e es => cases e; simp [lintOutcome]
  · cases evs with
    | nil => simp [lintOutcome]
    | cons e es => cases e; simp [lintOutcome]

private theorem head_of_perm_singleton {ord : Ord} (h : OrdOK ord) (l : List Name) (hl : l.length = 1) :
    ord l = l := by
  match l, hl with
  | [a], _ =>
    have hp := h [a]
    exact List.perm_singleton.mp hp

private theorem lintTyped_ne_nil (c : Circuit) (fl : LintFlags) (ord : Ord) (h : OrdOK ord)
    (g : Name) (a : Attr) (t : String) :
    lintTyped c fl ord g a t ≠ [] ↔
      (t ∉ Expected.supported_types
      ∨ (hasDot g = true ∧ c.bbs.lookup (dotPrefix g) = none)
      ∨ (t ∈ zeroIn ∧ 0 < (c.fanin g).length)
      ∨ (t = "bb_output" ∧ (1 < (c.fanout g).length ∨ ∃ f ∈ c.fanout g, c.ty? f ≠ some "buf"))
      ∨ (t ∈ singleIn ∧ 1 < (c.fanin g).length)
      ∨ (fl.undriven = true ∧ (t ∈ singleIn ∨ t ∈ multiIn) ∧ (c.fanin g).length = 0)
      ∨ (fl.singleInputGates = true ∧ t ∈ multiIn ∧ (c.fanin g).length < 2)
      ∨ (fl.unloaded = true ∧ a.out.getD false = false ∧ c.fanout g = [])) := by
  have hsup : T.supported = Expected.supported_types := by simp [T.supported, tables_supported]
  have h0 : T.lintL 0 = zeroIn := by simp [T.lintL, tables_lint, Expected.lint_lists, zeroIn]
  have h1 : T.lintL 1 = singleIn := by simp [T.lintL, tables_lint, Expected.lint_lists, singleIn]
  have h2 : T.lintL 2 = multiIn := by simp [T.lintL, tables_lint, Expected.lint_lists, multiIn]
  -- the bb_output block
  have hbb : (if (t == "bb_output") = true then lintBBOutLoads c ord (c.fanout g)
      else []) ≠ [] ↔ (t = "bb_output" ∧ (1 < (c.fanout g).length ∨ ∃ f ∈ c.fanout g, c.ty? f ≠ some "buf")) := by
    by_cases ht : t = "bb_output"
    · subst ht
      simp only [beq_self_eq_true, if_true, true_and, lintBBOutLoads]
      rcases Nat.lt_trichotomy (c.fanout g).length 1 with hlt | heq | hgt
      · have : c.fanout g = [] := by
          cases hfo : c.fanout g with
          | nil => rfl
          | cons x xs => simp [hfo] at hlt
        have hp := h (c.fanout g)
        rw [this] at hp ⊢
        have : ord [] = [] := List.perm_nil.mp hp
        simp [this, evIf]
      · have he := head_of_perm_singleton h _ heq
        rw [he]
        match hfo : c.fanout g, heq with
        | [f], _ =>
          simp [evIf_ne_nil, evIf]
      · constructor
        · intro _; exact Or.inl hgt
        · intro _
          have : evIf (decide ((c.fanout g).length > 1)) ≠ [] := by
            rw [evIf_ne_nil]; simpa using hgt
          intro hnil
          exact this (List.append_eq_nil_iff.mp hnil).1
    · have : (t == "bb_output") = false := by simpa using ht
      simp [this, ht]
  unfold lintTyped
  simp only [append_ne_nil, evIf_ne_nil, hsup, h0, h1, h2]
  rw [hbb]
  simp only [Bool.and_eq_true, and_assoc, Bool.or_eq_true, Bool.not_eq_true', List.contains_eq_mem,
    decide_eq_true_eq, decide_eq_false_iff_not, Option.isNone_iff_eq_none, List.isEmpty_iff,
    gt_iff_lt, Nat.lt_one_iff, or_assoc]

theorem lintNode_ne_nil (c : Circuit) (fl : LintFlags) (ord : Ord) (h : OrdOK ord) (g : Name) :
    lintNode c fl ord g ≠ [] ↔ NodeViolates c fl g := by
  unfold lintNode NodeViolates
  rcases hx : (c.attr? g).getD {} with ⟨ty, out⟩
  cases ty with
  | none => simp
  | some t =>
    simp only
    exact lintTyped_ne_nil c fl ord h g _ t

theorem lintPin_ne_nil (c : Circuit) (want : String) (pin : Name) :
    lintPin c want pin ≠ [] ↔ (c.attr? pin).bind (·.ty) ≠ some want := by
  unfold lintPin
  cases c.attr? pin with
  | none => simp
  | some a => simp [evIf_ne_nil]

private theorem flatMap_ne_nil {α β} (l : List α) (f : α → List β) :
    l.flatMap f ≠ [] ↔ ∃ x ∈ l, f x ≠ [] := by
  induction l with
  | nil => simp
  | cons a l ih => simp only [List.flatMap_cons, append_ne_nil, ih, List.mem_cons, exists_eq_or_imp]

theorem lintBB_ne_nil (c : Circuit) (ord : Ord) (h : OrdOK ord) (p : Name × BBox) :
    lintBB c ord p ≠ [] ↔ PinViolates c p := by
  unfold lintBB PinViolates
  simp only [append_ne_nil, flatMap_ne_nil, lintPin_ne_nil]
  constructor
  · rintro (⟨x, hx, hv⟩ | ⟨x, hx, hv⟩)
    · exact Or.inl ⟨x, (h _).mem_iff.mp hx, hv⟩
    · exact Or.inr ⟨x, (h _).mem_iff.mp hx, hv⟩
  · rintro (⟨x, hx, hv⟩ | ⟨x, hx, hv⟩)
    · exact Or.inl ⟨x, (h _).mem_iff.mpr hx, hv⟩
    · exact Or.inr ⟨x, (h _).mem_iff.mpr hx, hv⟩

/-- **C20 (first half).** For every circuit (well-formed or not), every flag combination and every
    set-iteration order, lint raises ValueError exactly when a documented rule is violated … -/
theorem lint_iff (c : Circuit) (fl : LintFlags) (ord : Ord) (h : OrdOK ord) :
    lint c fl ord = Outcome.valueError ↔ Violates c fl := by
  unfold lint Violates lintEvents
  rw [lintOutcome_eq]
  have key : ((ord c.nodeNames).flatMap (lintNode c fl ord) ++ c.bbs.flatMap (lintBB c ord)) ≠ [] ↔
      ((∃ g ∈ c.nodeNames, NodeViolates c fl g) ∨ (∃ p ∈ c.bbs, PinViolates c p)) := by
    simp only [append_ne_nil, flatMap_ne_nil, lintNode_ne_nil c fl ord h, lintBB_ne_nil c ord h]
    constructor
    · rintro (⟨x, hx, hv⟩ | hb)
      · exact Or.inl ⟨x, (h _).mem_iff.mp hx, hv⟩
      · exact Or.inr hb
    · rintro (⟨x, hx, hv⟩ | hb)
      · exact Or.inl ⟨x, (h _).mem_iff.mpr hx, hv⟩
      · exact Or.inr hb
  by_cases hnil : ((ord c.nodeNames).flatMap (lintNode c fl ord) ++ c.bbs.flatMap (lintBB c ord)) = []
  · simp only [hnil, if_true]
    constructor
    · intro hc; cases hc
    · intro hv; exact absurd hnil (key.mpr hv)
  · simp only [hnil, if_false, true_iff]
    exact key.mp hnil

/-- … and otherwise returns normally: no other exception class can escape. -/
theorem lint_ok_or_valueError (c : Circuit) (fl : LintFlags) (ord : Ord) :
    lint c fl ord = Outcome.ok ∨ lint c fl ord = Outcome.valueError := by
  unfold lint
  rw [lintOutcome_eq]
  split <;> simp

/-- the verdict does not depend on the set-iteration order or on `fail_fast` -/
theorem lint_order_irrelevant (c : Circuit) (fl : LintFlags) (o1 o2 : Ord) (h1 : OrdOK o1) (h2 : OrdOK o2)
    (ff : Bool) : lint c fl o1 = lint c { fl with failFast := ff } o2 := by
  have a := lint_iff c fl o1 h1
  have b := lint_iff c { fl with failFast := ff } o2 h2
  have hv : Violates c fl ↔ Violates c { fl with failFast := ff } := by
    unfold Violates NodeViolates; rfl
  rcases lint_ok_or_valueError c fl o1 with h | h <;>
    rcases lint_ok_or_valueError c { fl with failFast := ff } o2 with h' | h'
  · rw [h, h']
  · exfalso; have := a.mpr (hv.mpr (b.mp h')); rw [h] at this; cases this
  · exfalso; have := b.mpr (hv.mp (a.mp h)); rw [h'] at this; cases this
  · rw [h, h']

/-! non-vacuity: a concrete ill-formed graph (fan-in on a blackbox output) and a clean one -/
def bad : Circuit :=
  { nodes := [("a", { ty := some "input", out := some false }), ("u.q", { ty := some "bb_output", out := some false })],
    edges := [("a", "u.q")], bbs := [("u", { name := "ff", ins := [], outs := ["q"] })] }
example : lint bad {} id = Outcome.valueError := by decide
example : Violates bad {} := Or.inl ⟨"u.q", by decide, by
  unfold NodeViolates; simp [bad, Circuit.attr?, List.lookup]; decide⟩
def good : Circuit :=
  { nodes := [("a", { ty := some "input", out := some false }), ("o", { ty := some "not", out := some true })],
    edges := [("a", "o")] }
example : lint good {} id = Outcome.ok := by decide

end CG.C20
