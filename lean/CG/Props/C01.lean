/-
  C01 — the Tseitin CNF / solve() is exact for circuit semantics.
  Property theorems only; helper lemmas live in CG/Proofs/Tseitin.lean.
-/
import CG.Sat
import CG.Sem
import CG.Proofs.Tseitin
import CG.Proofs.Cnf
import CG.Proofs.Acyclic
import CG.Proofs.DpllP
namespace CG.C01

/-- static tie: the clause templates extracted from sat.py are the ones these proofs are about -/
theorem tables_cnf : Generated.cnf = some Expected.cnf := by decide

def OrdOK (ord : Ord) : Prop := ∀ l, (ord l).Perm l

/-- the well-formedness the statement assumes (lint-clean with default flags, no `x` constants) -/
structure Clean (c : Circuit) : Prop where
  nodup : c.nodeNames.Nodup
  typed : ∀ p ∈ c.nodes, ∃ t, p.2.ty = some t ∧ t ∈ Expected.supported_types ∧ t ≠ "x"
  single : ∀ n t, c.ty? n = some t → t ∈ ["buf", "not", "bb_input"] → (c.fanin n).length ≤ 1
  multi : ∀ n t, c.ty? n = some t → t ∈ ["and", "nand", "or", "nor", "xor", "xnor"] → 1 ≤ (c.fanin n).length

/-- the unique extension of a node valuation to the encoder's auxiliary variables -/
def ext (c : Circuit) (v : Val) : Var → Bool
  | .node s => v s
  | .xorAux a b => Bool.xor (ext c v a) (ext c v b)
  | .xorInv s => xorL ((c.fanin s).map v)

/-- on clean circuits the encoder never raises -/
theorem cnf_ok (c : Circuit) (ord : Ord) (hord : OrdOK ord) (hc : Clean c) : ∃ f, cnf c ord = .ok f := by
  exact Tseitin.cnf_ok' c ord hord hc.nodup hc.typed hc.single hc.multi

/-- every consistent valuation, extended to the auxiliaries, satisfies the CNF … -/
theorem cnf_complete (c : Circuit) (ord : Ord) (hord : OrdOK ord) (hc : Clean c) (f : CNF)
    (hf : cnf c ord = .ok f) (v : Val) (hv : Consistent c v) : CNF.sat (ext c v) f = true := by
  exact Tseitin.cnf_complete' c ord hord hc.nodup hc.typed hc.single hc.multi f hf v hv (ext c v)
    (fun _ => rfl) (fun _ _ => rfl) (fun _ => rfl)

/-- … and every satisfying assignment, restricted to circuit nodes, is a consistent valuation -/
theorem cnf_sound (c : Circuit) (ord : Ord) (hord : OrdOK ord) (hc : Clean c) (f : CNF)
    (hf : cnf c ord = .ok f) (σ : Var → Bool) (hσ : CNF.sat σ f = true) :
    Consistent c (fun n => σ (.node n)) := by
  exact Tseitin.cnf_sound' c ord hord hc.nodup hc.typed hc.single hc.multi f hf σ hσ

/-- the auxiliaries that occur in the CNF are determined by the node values (so the projection onto
    circuit nodes is a bijection between models and consistent valuations — used by C08) -/
theorem cnf_aux_determined (c : Circuit) (ord : Ord) (hord : OrdOK ord) (hc : Clean c) (f : CNF)
    (hf : cnf c ord = .ok f) (σ : Var → Bool) (hσ : CNF.sat σ f = true) :
    ∀ cl ∈ f, ∀ l ∈ cl, σ l.v = ext c (fun n => σ (.node n)) l.v := by
  exact Tseitin.cnf_det' c ord hord hc.nodup hc.typed hc.single hc.multi f hf σ hσ
    (ext c (fun n => σ (.node n))) (fun _ => rfl) (fun _ _ => rfl) (fun _ => rfl)

/-- **C01 (cnf form).** the satisfying assignments of `cnf(c)` restricted to circuit nodes are exactly the
    consistent valuations, for every set-iteration order -/
theorem cnf_projection (c : Circuit) (ord : Ord) (hord : OrdOK ord) (hc : Clean c) (f : CNF)
    (hf : cnf c ord = .ok f) (v : Val) :
    Consistent c v ↔ ∃ σ, CNF.sat σ f = true ∧ ∀ n, σ (.node n) = v n := by
  constructor
  · intro hv
    exact ⟨ext c v, cnf_complete c ord hord hc f hf v hv, fun _ => rfl⟩
  · rintro ⟨σ, hσ, hn⟩
    have hv : v = fun n => σ (.node n) := by funext n; rw [hn]
    rw [hv]
    exact cnf_sound c ord hord hc f hf σ hσ

/-- **C01 (solve form).** with any sound and complete solver, `solve(c, A)` returns False exactly when no
    consistent valuation agrees with `A`; otherwise a consistent valuation that agrees with `A` -/
theorem solve_spec (s : Solver) (hs : SolverSpec s) (c : Circuit) (ord : Ord) (hord : OrdOK ord) (hc : Clean c)
    (as : List (Name × Bool)) (hin : ∀ p ∈ as, c.has p.1 = true) :
    (solve s c ord as = .ok none ↔ ¬ ∃ v, Consistent c v ∧ ∀ p ∈ as, v p.1 = p.2) ∧
    (∀ v, solve s c ord as = .ok (some v) → Consistent c v ∧ ∀ p ∈ as, v p.1 = p.2) ∧
    (∃ r, solve s c ord as = .ok r) := by
  obtain ⟨f, hf⟩ := cnf_ok c ord hord hc
  have hany : as.any (fun p => !c.has p.1) = false := by
    rw [List.any_eq_false]
    intro p hp
    rw [hin p hp]
    simp
  unfold solve
  rw [hf]
  simp only [hany, Bool.false_eq_true, if_false]
  cases hs' : s (f ++ assumptionClauses as) with
  | none =>
    dsimp only
    refine ⟨⟨fun _ => ?_, fun _ => rfl⟩, fun v h => (by cases h), ⟨none, rfl⟩⟩
    rintro ⟨v, hv, hag⟩
    have h1 := cnf_complete c ord hord hc f hf v hv
    have h2 : CNF.sat (ext c v) (assumptionClauses as) = true :=
      (Tseitin.assumption_sat _ as).mpr hag
    have h3 := hs.complete _ hs' (ext c v)
    rw [Tseitin.cnf_sat_append, h1, h2] at h3
    cases h3
  | some σ =>
    have h0 := hs.sound _ σ hs'
    rw [Tseitin.cnf_sat_append, Bool.and_eq_true] at h0
    have h1 := cnf_sound c ord hord hc f hf σ h0.1
    have h2 := (Tseitin.assumption_sat σ as).mp h0.2
    dsimp only
    refine ⟨⟨fun h => (by cases h), fun h => absurd ⟨_, h1, h2⟩ h⟩, fun v h => ?_, ⟨_, rfl⟩⟩
    cases h
    exact ⟨h1, h2⟩

/-- an assumption on a name that is not a node is rejected with ValueError -/
theorem solve_rejects_unknown (s : Solver) (c : Circuit) (ord : Ord) (hord : OrdOK ord) (hc : Clean c)
    (as : List (Name × Bool)) (hin : ∃ p ∈ as, c.has p.1 = false) :
    solve s c ord as = .error .valueError := by
  obtain ⟨f, hf⟩ := cnf_ok c ord hord hc
  have hany : as.any (fun p => !c.has p.1) = true := by
    rw [List.any_eq_true]
    obtain ⟨p, hp, h⟩ := hin
    exact ⟨p, hp, by rw [h]; rfl⟩
  unfold solve
  rw [hf]
  simp only [hany, if_true]

/-- variable numbering (hash order) cannot matter: the first-come numbering is injective on the pool -/
theorem numbering_injective (pool : List Var) (a b : Var) (ha : a ∈ pool) (hb : b ∈ pool)
    (h : numbering pool a = numbering pool b) : a = b := by
  unfold numbering at h
  exact Tseitin.idxOf_inj pool a b ha hb (Nat.add_right_cancel h)

/-- `n` is a free node: an input, a blackbox output, or an undriven buf / not / bb_input
    (for these `gateFn` is `none`, and the encoder emits only the tautology `[n, ¬n]`) -/
def Free (c : Circuit) (n : Name) : Prop :=
  c.ty? n = some "input" ∨ c.ty? n = some "bb_output" ∨
    (∃ t, c.ty? n = some t ∧ t ∈ ["buf", "not", "bb_input"] ∧ c.fanin n = [])

/-- in an acyclic clean circuit the values of the free nodes (inputs, blackbox outputs, undriven
    buf/not/bb_input) determine every node -/
theorem acyclic_unique (c : Circuit) (hc : Clean c)
    (closed : ∀ e ∈ c.edges, c.has e.1 = true ∧ c.has e.2 = true)
    (hacyc : ∃ rank : Name → Nat, ∀ e ∈ c.edges, rank e.1 < rank e.2)
    (v w : Val) (hv : Consistent c v) (hw : Consistent c w)
    (hfree : ∀ n, Free c n → v n = w n) :
    ∀ n, c.has n = true → v n = w n := by
  obtain ⟨rank, hrank⟩ := hacyc
  exact Tseitin.acyclic_unique' c hc.nodup hc.typed hc.single closed rank hrank v w hv hw hfree

/-- … and evaluation along any topological order produces that valuation (existence) -/
theorem acyclic_exists (c : Circuit) (hc : Clean c) (order : List Name) (free : Val)
    (hperm : order.Perm c.nodeNames)
    (htopo : ∀ i j (hi : i < order.length) (hj : j < order.length), (order[i], order[j]) ∈ c.edges → i < j) :
    Consistent c (eval c order free) ∧
    ∀ n, Free c n → eval c order free n = free n := by
  exact Tseitin.acyclic_exists' c hc.nodup order free hperm htopo

/-! non-vacuity: a clean circuit with a 3-input xnor (parity chain + inverter) and a 1-input nand -/
def ex : Circuit :=
  { nodes := [("a", { ty := some "input", out := some false }), ("b", { ty := some "input", out := some false }),
              ("c", { ty := some "input", out := some false }), ("g", { ty := some "xnor", out := some true }),
              ("h", { ty := some "nand", out := some true })],
    edges := [("a", "g"), ("b", "g"), ("c", "g"), ("g", "h")] }
example : (cnf ex id).toOption.map (·.length) = some 15 := by decide
example : Clean ex := by
  refine ⟨by decide, by decide, ?_, ?_⟩ <;>
  · intro n t ht hm
    obtain ⟨p, hp, rfl, hpt⟩ := Tseitin.mem_of_ty ex n t ht
    simp only [ex, List.mem_cons, List.not_mem_nil, or_false] at hp
    rcases hp with rfl | rfl | rfl | rfl | rfl <;> cases hpt <;>
      first | exact absurd hm (by decide) | decide

/-! non-vacuity for undriven nodes: an undriven `buf` (a free net, as in a miter with untied startpoints)
    feeding an `and`; the buf contributes only the tautology `[u, ¬u]` -/
def ex2 : Circuit :=
  { nodes := [("a", { ty := some "input", out := some false }), ("u", { ty := some "buf", out := some false }),
              ("g", { ty := some "and", out := some true })],
    edges := [("a", "g"), ("u", "g")] }
example : (cnf ex2 id).toOption = some
    [[⟨true, .node "a"⟩, ⟨false, .node "a"⟩],
     [⟨true, .node "u"⟩, ⟨false, .node "u"⟩],
     [⟨false, .node "g"⟩, ⟨true, .node "a"⟩], [⟨false, .node "g"⟩, ⟨true, .node "u"⟩],
     [⟨true, .node "g"⟩, ⟨false, .node "a"⟩, ⟨false, .node "u"⟩]] := by decide
example : Free ex2 "u" := Or.inr (Or.inr ⟨"buf", by decide, by decide, by decide⟩)
example : Clean ex2 := by
  refine ⟨by decide, by decide, ?_, ?_⟩ <;>
  · intro n t ht hm
    obtain ⟨p, hp, rfl, hpt⟩ := Tseitin.mem_of_ty ex2 n t ht
    simp only [ex2, List.mem_cons, List.not_mem_nil, or_false] at hp
    rcases hp with rfl | rfl | rfl <;> cases hpt <;>
      first | exact absurd hm (by decide) | decide

/-- the solver contract assumed by `solve_sound`/`solve_complete` (and by C04, C08, C11) is satisfiable: the DPLL solver
    the driver runs the solver-based models with is sound and complete for every formula -/
theorem solver_contract_satisfiable : SolverSpec Dpll.dpll := Dpll.dpll_spec

end CG.C01
