/-
  C11 — sensitivity analyses agree with their definitions.
  Property theorems only; helper lemmas live in CG/Proofs/Sens*.lean.
-/
import CG.Tx2
import CG.Spec
import CG.Props.C01
import CG.Props.C04
import CG.Props.C08
import CG.Props.C13
import CG.Proofs.Sens
import CG.Proofs.SensESem
import CG.Proofs.SensEInf
import CG.Proofs.SensECount
import CG.Proofs.SensEAvg
import CG.Proofs.SensEOk
import CG.Proofs.SensEInfOk
import CG.Dpll
namespace CG.C11

/-- the circuits the statement ranges over: lint-clean, blackbox-free, no `x` constants -/
structure Good (c : Circuit) : Prop where
  clean : LintClean c
  nobb : c.bbs = []
  nox : ∀ p ∈ c.nodes, p.2.ty ≠ some "x"

/-- `w` is what `c` computes when node `n` is forced to the complement of its value under `v`: every other node
    satisfies its gate equation, inputs other than `n` keep their values -/
def Inverted (c : Circuit) (n : Name) (v w : Val) : Prop :=
  w n = !v n ∧
  (∀ p ∈ c.nodes, p.1 ≠ n → ∀ t, p.2.ty = some t → NodeOK c w p.1 t) ∧
  (∀ s ∈ c.inputs, s ≠ n → w s = v s)

/-- **C11 (sensitization_transform, default endpoints).** for every consistent valuation of the transform's result:
    copy 0 is a consistent valuation of `c`, copy 1 is `c` with `n` inverted, all startpoints are tied, and `sat` is 1
    exactly when inverting `n` changes some output -/
theorem sensitization_sem (c m : Circuit) (n : Name) (ord : Ord) (ordE : List (Name × Name) → List (Name × Name))
    (hord : OrdOK ord) (hc : Good c) (hn : c.has n = true) (hout : c.outputs ≠ []) (hin : c.inputs ≠ [])
    (h : Tx.sensitizationTransform c n [] ord ordE = .ok m) (v : Val) (hv : Consistent m v) :
    Consistent c (fun x => v ("c0_" ++ x)) ∧
    Inverted c n (fun x => v ("c0_" ++ x)) (fun x => v ("c1_" ++ x)) ∧
    (∀ s ∈ c.inputs, v ("c0_" ++ s) = v s) ∧
    (v "sat" = true ↔ ∃ e ∈ c.outputs, v ("c0_" ++ e) ≠ v ("c1_" ++ e)) := by
  obtain ⟨m0, m2, h0, hh, h2, h3⟩ := Sens.sensitization_steps hc.nobb h
  obtain ⟨sp, ep, V, hspN, hepN, hspne, hepne, hsp, hep, hnbo⟩ := Sens.self_miter hord hc.clean hc.nobb hin hout h0
  have S := Sens.sview_of_steps V hh h2 h3
  obtain ⟨hce, hn1⟩ := (S.consistent_iff v).1 hv
  have w := hc.clean.toWF
  have hinsp : ∀ s ∈ sp, s ∈ c.inputs := fun s hs => (hsp s).1 hs
  have hnf := Miter.noFanin_inputs hc.clean
  have t0 : ∀ s ∈ c.inputs, v ("c0_" ++ s) = v s := by
    intro s hs
    rw [← Miter.pref_c0]
    exact Sens.ce_tie0 V w hspN ((hsp s).2 hs) hs (hnf s hs) v hce
  refine ⟨?_, ⟨?_, ?_, ?_⟩, t0, ?_⟩
  · simpa only [Miter.pref_c0] using Sens.ce_c0 V w hspN hinsp v hce
  · show v ("c1_" ++ n) = !v ("c0_" ++ n)
    rw [← Miter.pref_c1, ← Miter.pref_c0]
    exact hn1
  · simpa only [Miter.pref_c1] using Sens.ce_c1 V w hspN hinsp v hce
  · intro s hs hsn
    show v ("c1_" ++ s) = v ("c0_" ++ s)
    rw [t0 s hs, ← Miter.pref_c1]
    exact Sens.ce_tie1 V w hspN ((hsp s).2 hs) hsn hs (hnf s hs) v hce
  · rw [Sens.ce_sat V hepN hepne v hce]
    simp only [Miter.pref_c0, Miter.pref_c1]
    constructor
    · rintro ⟨e, he, hd⟩
      exact ⟨e, (hep e).1 he, hd⟩
    · rintro ⟨e, he, hd⟩
      exact ⟨e, (hep e).2 he, hd⟩

/-- every (valuation, inverted valuation) pair arises, so `sat` ranges over exactly the sensitizing valuations -/
theorem sensitization_complete (c m : Circuit) (n : Name) (ord : Ord) (ordE : List (Name × Name) → List (Name × Name))
    (hord : OrdOK ord) (hc : Good c) (hn : c.has n = true) (hout : c.outputs ≠ []) (hin : c.inputs ≠ [])
    (h : Tx.sensitizationTransform c n [] ord ordE = .ok m)
    (v0 w : Val) (hv0 : Consistent c v0) (hw : Inverted c n v0 w) :
    ∃ v, Consistent m v ∧ (∀ x, c.has x = true → v ("c0_" ++ x) = v0 x ∧ v ("c1_" ++ x) = w x) ∧
      (∀ s ∈ c.inputs, v s = v0 s) := by
  obtain ⟨m0, m2, h0, hh, h2, h3⟩ := Sens.sensitization_steps hc.nobb h
  obtain ⟨sp, ep, V, hspN, hepN, hspne, hepne, hsp, hep, hnbo⟩ := Sens.self_miter hord hc.clean hc.nobb hin hout h0
  have S := Sens.sview_of_steps V hh h2 h3
  have wf := hc.clean.toWF
  have hinsp : ∀ s ∈ sp, s ∈ c.inputs := fun s hs => (hsp s).1 hs
  have hnf := Miter.noFanin_inputs hc.clean
  have hep0 : ∀ e ∈ ep, c.has e = true := fun e he => mem_outputs_has ((hep e).1 he)
  refine ⟨Miter.mval c c sp ep v0 w, ?_, ?_, ?_⟩
  · rw [S.consistent_iff]
    refine ⟨Sens.ce_complete V wf hspN hepN hepne hinsp hnf hep0 v0 w hv0 hw.2.1 ?_, ?_⟩
    · intro s hs hsn
      exact hw.2.2 s (hinsp s hs) hsn
    · rw [V.mval_c1 v0 w hn, V.mval_c0 v0 w hn]
      exact hw.1
  · intro x hx
    rw [← Miter.pref_c0, ← Miter.pref_c1]
    exact ⟨V.mval_c0 v0 w hx, V.mval_c1 v0 w hx⟩
  · intro s hs
    exact V.mval_tie v0 w ((hsp s).2 hs)

/-- **C11 (sensitize).** with any sound and complete solver, `sensitize(c, n)` returns None exactly when no valuation
    exists under which inverting `n` changes an output; otherwise the returned startpoint valuation is such a one -/
theorem sensitize_spec (s : Solver) (hs : SolverSpec s) (c : Circuit) (n : Name) (ord : Ord)
    (ordE : List (Name × Name) → List (Name × Name)) (hord : OrdOK ord) (hc : Good c) (hn : c.has n = true)
    (hout : c.outputs ≠ []) (hin : c.inputs ≠ []) (m : Circuit)
    (h : Tx.sensitizationTransform c n [] ord ordE = .ok m) :
    (Props.sensitize s c n [] ord ordE = .ok none ↔
        ¬ ∃ v0 w, Consistent c v0 ∧ Inverted c n v0 w ∧ ∃ e ∈ c.outputs, v0 e ≠ w e) ∧
    (∀ r, Props.sensitize s c n [] ord ordE = .ok (some r) →
        ∃ v0 w, Consistent c v0 ∧ Inverted c n v0 w ∧ (∃ e ∈ c.outputs, v0 e ≠ w e) ∧
          ∀ p ∈ r, p.1 ∈ c.inputs ∧ v0 p.1 = p.2) := by
  obtain ⟨m0, m2, h0, hh, h2, h3⟩ := Sens.sensitization_steps hc.nobb h
  obtain ⟨sp, ep, V, hspN, hepN, hspne, hepne, hsp, hep, hnbo⟩ := Sens.self_miter hord hc.clean hc.nobb hin hout h0
  have S := Sens.sview_of_steps V hh h2 h3
  have hinsp : ∀ s ∈ sp, s ∈ c.inputs := fun s hs => (hsp s).1 hs
  have hclean0 : C01.Clean m0 := V.clean hc.clean hc.clean hspN hepN hepne hinsp hinsp hc.nox hc.nox
  have hclean : C01.Clean m := S.clean hclean0
  have hsat : ∀ p ∈ [("sat", true)], m.has p.1 = true := by
    intro p hp
    simp only [List.mem_singleton] at hp
    subst hp
    exact S.has_sat
  obtain ⟨S1, S2, r0, S3⟩ := C01.solve_spec s hs m ord hord hclean [("sat", true)] hsat
  have sem := sensitization_sem c m n ord ordE hord hc hn hout hin h
  -- a consistent valuation of `m` with `sat = 1` yields a sensitizing pair
  have fwd : ∀ v, Consistent m v → (∀ p ∈ [("sat", true)], v p.1 = p.2) →
      Consistent c (fun x => v ("c0_" ++ x)) ∧ Inverted c n (fun x => v ("c0_" ++ x)) (fun x => v ("c1_" ++ x)) ∧
      (∃ e ∈ c.outputs, v ("c0_" ++ e) ≠ v ("c1_" ++ e)) ∧ ∀ s ∈ c.inputs, v ("c0_" ++ s) = v s := by
    intro v hv hsv
    obtain ⟨k0, k1, kt, ks⟩ := sem v hv
    exact ⟨k0, k1, ks.1 (hsv ("sat", true) (by simp)), kt⟩
  -- and conversely
  have bwd : (∃ v0 w, Consistent c v0 ∧ Inverted c n v0 w ∧ ∃ e ∈ c.outputs, v0 e ≠ w e) →
      ∃ v, Consistent m v ∧ ∀ p ∈ [("sat", true)], v p.1 = p.2 := by
    rintro ⟨v0, w, hv0, hw, e, he, hd⟩
    obtain ⟨v, hv, hval, _⟩ := sensitization_complete c m n ord ordE hord hc hn hout hin h v0 w hv0 hw
    refine ⟨v, hv, ?_⟩
    intro p hp
    simp only [List.mem_singleton] at hp
    subst hp
    apply (sem v hv).2.2.2.2
    refine ⟨e, he, ?_⟩
    obtain ⟨a, b⟩ := hval e (mem_outputs_has he)
    rw [a, b]
    exact hd
  unfold Props.sensitize
  rw [h]
  simp only []
  rw [S3]
  cases r0 with
  | none =>
    dsimp only
    refine ⟨⟨fun _ hex => (S1.1 S3) (bwd hex), fun _ => rfl⟩, ?_⟩
    intro r hr
    cases hr
  | some v =>
    dsimp only
    obtain ⟨hv, hsv⟩ := S2 v S3
    obtain ⟨k0, k1, ke, kt⟩ := fwd v hv hsv
    refine ⟨⟨fun hr => (by cases hr), fun hno => absurd ⟨_, _, k0, k1, ke⟩ hno⟩, ?_⟩
    intro r hr
    injection hr with hr
    injection hr with hr
    subst hr
    refine ⟨_, _, k0, k1, ke, ?_⟩
    intro p hp
    obtain ⟨g, hg, rfl⟩ := List.mem_map.1 hp
    have hgi : g ∈ c.inputs := hinsp g (S.startpoints hnbo ((Sens.ord_mem hord _ g).1 hg))
    exact ⟨hgi, kt g hgi⟩

/-- `w` is what the cone of `n` computes when startpoint `s` is flipped -/
def Flipped (c : Circuit) (s : Name) (v w : Val) : Prop :=
  Consistent c w ∧ w s = !v s ∧ ∀ i ∈ c.inputs, i ≠ s → w i = v i

/-- **C11 (sensitivity_transform).** for every consistent valuation of the transform's result: `orig_` carries a
    consistent valuation of the cone of `n`; for each startpoint `s` of `n`, `inv_s_` carries the valuation with `s`
    flipped and `dif_out_s` is 1 exactly when flipping `s` flips `n`; the `sen_out` bits encode the number of such `s` -/
theorem sensitivity_transform_sem (c sen : Circuit) (n : Name) (ord : Ord) (hord : OrdOK ord) (hc : Good c)
    (hn : c.has n = true) (h : Tx.sensitivityTransform c n ord = .ok sen)
    (sp : List Name) (hsp : Query.startpoints c [n] = .ok sp) (tfi : List Name) (htfi : Query.transitiveFanin c [n] = .ok tfi)
    (v : Val) (hv : Consistent sen v) :
    let cone := Tx.inducedSub c (n :: tfi)
    let v0 : Val := fun x => v ("orig_" ++ x)
    Consistent cone v0 ∧
    (∀ s ∈ sp, Flipped cone s v0 (fun x => v ("inv_" ++ s ++ "_" ++ x)) ∧
        (v ("dif_out_" ++ s) = true ↔ v0 n ≠ v ("inv_" ++ s ++ "_" ++ n))) ∧
    (∃ k, Logic.clog2 (sp.length + 1) = .ok k ∧
        C13.bitsVal v "sen_out_" k = (sp.filter (fun s => v ("dif_out_" ++ s))).length) := by
  obtain ⟨pcC, m, k, Su⟩ := Sens.sen_setup hord hc.clean hc.nobb hn h hsp htfi
  have H := Su.hyp
  have V := Sens.senView H Su.phases
  have hspm : ∀ s, s ∈ sp → s ∈ ord sp := fun s hs => (Sens.ord_mem hord sp s).2 hs
  intro cone v0
  refine ⟨?_, ?_, ?_⟩
  · intro p hp t ht
    have := Sens.read_orig_gate H V hv hp ht
    simpa only [Sens.pref_orig] using this
  · intro s hs
    have hs' := hspm s hs
    have e0 : ∀ x, v0 x = v (Circuit.pref "orig" x) := fun x => by rw [Sens.pref_orig]
    refine ⟨⟨?_, ?_, ?_⟩, ?_⟩
    · intro p hp t ht
      exact Sens.read_inv_gate H V hv hs' hp ht
    · rw [e0, Sens.read_orig_in H V hv hs']
      exact Sens.read_inv_self H V hv hs'
    · intro i hi hne
      have hi' := H.inpsp i hi
      rw [e0, Sens.read_orig_in H V hv hi']
      exact Sens.read_inv_in H V hv hs' hi' hne
    · rw [Sens.read_dif H V hv hs', e0]
      show (v (Circuit.pref "orig" n) != v (Circuit.pref ("inv_" ++ s) n)) = true ↔ _
      rw [bne_iff_ne]
      rfl
  · have hlen : (ord sp).length = sp.length := (hord sp).length_eq
    obtain ⟨k', hk', hle, _⟩ := C13.clog2_spec ((ord sp).length + 1) (by omega)
    have hkk : k' = k := by
      rw [Su.hk] at hk'
      injection hk' with hk'
      exact hk'.symm
    subst hkk
    refine ⟨k', by rw [← hlen]; exact Su.hk, ?_⟩
    have := Sens.read_count H V Su.pop Su.hkm hle hv
    rw [((hord sp).filter _).length_eq] at this
    exact this

/-- flipping startpoint `s` flips `n` under the valuation `v` of the cone -/
def FlipsN (cone : Circuit) (n s : Name) (v : Val) : Prop := ∃ w, Flipped cone s v w ∧ w n ≠ v n

/-- `S` is the set of startpoints whose flip flips `n` under `v` -/
def FlipSet (cone : Circuit) (n : Name) (sp : List Name) (v : Val) (S : List Name) : Prop :=
  S.Nodup ∧ ∀ s, s ∈ S ↔ (s ∈ sp ∧ FlipsN cone n s v)

/-- **C11 (sensitivity).** with any sound and complete solver, `props.sensitivity(c, n)` (for `n` not itself a
    startpoint) returns the maximum, over all valuations of the cone of `n`, of the number of startpoints whose flip
    flips `n` — the descending search with its `clog2(len)`-bit encoding (never truncated by zfill) is sound -/
theorem sensitivity_spec (s : Solver) (hs : SolverSpec s) (c : Circuit) (n : Name) (ord : Ord) (hord : OrdOK ord)
    (hc : Good c) (hacyc : Acyclic c) (hn : c.has n = true)
    (sp : List Name) (hsp : Query.startpoints c [n] = .ok sp) (hnsp : n ∉ sp) (hne : sp ≠ [])
    (tfi : List Name) (htfi : Query.transitiveFanin c [n] = .ok tfi) (r : Nat)
    (h : Props.sensitivity s c n ord = .ok r) :
    let cone := Tx.inducedSub c (n :: tfi)
    (∃ v S, Consistent cone v ∧ FlipSet cone n sp v S ∧ S.length = r) ∧
    (∀ v S, Consistent cone v → FlipSet cone n sp v S → S.length ≤ r) := by
  have hcont : sp.contains n = false := by
    cases hcn : sp.contains n with
    | false => rfl
    | true => exact absurd (List.contains_iff_mem.1 hcn) hnsp
  unfold Props.sensitivity at h
  rw [hsp] at h
  simp only [hcont, Bool.false_eq_true, if_false] at h
  cases hT : Tx.sensitivityTransform c n ord with
  | error e => rw [hT] at h; cases h
  | ok sen =>
    cases hW : Logic.clog2 sp.length with
    | error e => rw [hT, hW] at h; cases h
    | ok w =>
      rw [hT, hW] at h
      dsimp only at h
      obtain ⟨pcC, m, K, Su⟩ := Sens.sen_setup hord hc.clean hc.nobb hn hT hsp htfi
      have H := Su.hyp
      have V := Sens.senView H Su.phases
      have hcx : ∀ p ∈ (Tx.inducedSub c (n :: tfi)).nodes, p.2.ty ≠ some "x" :=
        fun p hp => hc.nox p ((Sens.sub_mem_nodes p).1 hp).1
      have hacone : Acyclic (Tx.inducedSub c (n :: tfi)) :=
        Sens.acyclic_of_subset hacyc (fun e he => ((Sens.sub_mem_edges e).1 he).1)
      have hclean := Sens.sen_clean H V Su.pop hcx Su.pcnox
      have hperm := hord sp
      have hlen : (ord sp).length = sp.length := hperm.length_eq
      have hpos : 1 ≤ sp.length := by rw [← hlen]; exact Su.pos
      have hspnd : sp.Nodup := Sens.sp_nodup hc.clean hn hsp
      -- widths
      obtain ⟨K', hK', hle, _⟩ := C13.clog2_spec ((ord sp).length + 1) (by omega)
      have hKK : K' = K := by
        rw [Su.hk] at hK'
        injection hK' with hK'
        exact hK'.symm
      subst hKK
      obtain ⟨w', hw', _, hw2⟩ := C13.clog2_spec sp.length hpos
      have hww : w' = w := by
        rw [hW] at hw'
        injection hw' with hw'
        exact hw'.symm
      subst hww
      have hlenK : sp.length < 2 ^ K' := by omega
      have hK1 : 1 ≤ K' := by
        cases K' with
        | zero => simp at hle; omega
        | succ k => omega
      have hwK : w' ≤ K' := by
        rcases hw2 with h0 | h0
        · omega
        · apply Classical.byContradiction
          intro hcon
          have : 2 ^ K' ≤ 2 ^ (w' - 1) := Nat.pow_le_pow_right (by decide) (by omega)
          omega
      have hcnt : ∀ v, Consistent sen v → Arith.sumBits (fun i => v ("sen_out_" ++ toString i)) K' =
          ((ord sp).filter (fun s => v ("dif_out_" ++ s))).length := by
        intro v hv
        rw [← Arith.bitsVal_eq_sumBits]
        exact Sens.read_count H V Su.pop Su.hkm hle hv
      have hhas : ∀ i, i < K' → sen.has ("sen_out_" ++ toString i) = true :=
        fun i hi => V.has_name (Sens.out_mem hi)
      obtain ⟨⟨v, hv, hcv⟩, hmax⟩ := Sens.go_spec s hs ord hord hclean hhas hcnt hwK hK1 sp.length hlenK
        (sp.length + 2) sp.length (by omega) (Nat.le_refl _)
        (fun v _ => by rw [← hlen]; exact List.length_filter_le _ _) r h
      have hsp' : ∀ s, s ∈ sp → s ∈ ord sp := fun s hs => (Sens.ord_mem hord sp s).2 hs
      -- flip sets are counted by the `dif_out` bits
      have key : ∀ v u, Consistent sen v →
          (∀ y, (Tx.inducedSub c (n :: tfi)).has y = true → v (Circuit.pref "orig" y) = u y) →
          ∀ S, FlipSet (Tx.inducedSub c (n :: tfi)) n sp u S →
            S.length = ((ord sp).filter (fun s => v ("dif_out_" ++ s))).length := by
        intro v u hv hu S hS
        rw [(hperm.filter _).length_eq]
        apply List.Perm.length_eq
        apply (List.perm_ext_iff_of_nodup hS.1 (hspnd.filter _)).2
        intro s
        rw [hS.2 s, List.mem_filter]
        constructor
        · rintro ⟨h1, h2⟩
          exact ⟨h1, (Sens.flips_iff H V hcx hacone hv hu (hsp' s h1)).1 h2⟩
        · rintro ⟨h1, h2⟩
          exact ⟨h1, (Sens.flips_iff H V hcx hacone hv hu (hsp' s h1)).2 h2⟩
      intro cone
      have hv0 : Consistent cone (fun x => v (Circuit.pref "orig" x)) :=
        fun p hp t ht => Sens.read_orig_gate H V hv hp ht
      refine ⟨⟨fun x => v (Circuit.pref "orig" x), sp.filter (fun s => v ("dif_out_" ++ s)), hv0, ?_, ?_⟩, ?_⟩
      · refine ⟨hspnd.filter _, ?_⟩
        intro s
        rw [List.mem_filter]
        constructor
        · rintro ⟨h1, h2⟩
          exact ⟨h1, (Sens.flips_iff H V hcx hacone hv (fun _ _ => rfl) (hsp' s h1)).2 h2⟩
        · rintro ⟨h1, h2⟩
          exact ⟨h1, (Sens.flips_iff H V hcx hacone hv (fun _ _ => rfl) (hsp' s h1)).1 h2⟩
      · rw [← (hperm.filter _).length_eq]
        exact hcv
      · intro u S hu hS
        obtain ⟨v', hv', hag⟩ := Sens.sen_complete H V hcx hacone Su.pcAcyc hu
        rw [key v' u hv' hag S hS]
        exact hmax v' hv'

/-- a startpoint has sensitivity 1 by definition in the code -/
theorem sensitivity_startpoint (s : Solver) (c : Circuit) (n : Name) (ord : Ord)
    (sp : List Name) (hsp : Query.startpoints c [n] = .ok sp) (hnsp : n ∈ sp) :
    Props.sensitivity s c n ord = .ok 1 := by
  have hc : sp.contains n = true := List.contains_iff_mem.2 hnsp
  unfold Props.sensitivity
  rw [hsp]
  simp only [hc, if_true]

/-! ### selected endpoints, influence, average sensitivity -/

/-- **C11 (sensitization_transform, selected endpoints).** with a non-empty endpoint list `E` the transform works on
    the cone of `E` (outputs exactly `E`): for every consistent valuation of the result, copy 0 is a consistent valuation
    of that cone, copy 1 is the cone with `n` inverted, the cone's inputs are tied, and `sat` is 1 exactly when
    inverting `n` changes one of the selected endpoints -/
theorem sensitization_endpoints_sem (c m : Circuit) (n : Name) (E : List Name) (ord : Ord)
    (ordE : List (Name × Name) → List (Name × Name)) (hord : OrdOK ord) (hordE : ∀ l, (ordE l).Perm l)
    (hc : Good c) (hE : E ≠ []) (tfi : List Name) (htfi : Query.transitiveFanin c E = .ok tfi)
    (hin : ∃ s ∈ c.inputs, s ∈ E ++ tfi)
    (h : Tx.sensitizationTransform c n E ord ordE = .ok m) (v : Val) (hv : Consistent m v) :
    let cone := Tx.inducedSub c (E ++ tfi)
    n ∈ E ++ tfi ∧
    Consistent cone (fun x => v ("c0_" ++ x)) ∧
    Inverted cone n (fun x => v ("c0_" ++ x)) (fun x => v ("c1_" ++ x)) ∧
    (∀ s ∈ cone.inputs, v ("c0_" ++ s) = v s) ∧
    (v "sat" = true ↔ ∃ e ∈ E, v ("c0_" ++ e) ≠ v ("c1_" ++ e)) := by
  obtain ⟨sc, m0, sp, ep, X⟩ := SensE.eview hord hordE hc.clean hc.nobb hE htfi hin h
  intro cone
  exact ⟨X.hn, X.sem v hv⟩

/-- every (valuation of the cone, inverted valuation) pair arises -/
theorem sensitization_endpoints_complete (c m : Circuit) (n : Name) (E : List Name) (ord : Ord)
    (ordE : List (Name × Name) → List (Name × Name)) (hord : OrdOK ord) (hordE : ∀ l, (ordE l).Perm l)
    (hc : Good c) (hE : E ≠ []) (tfi : List Name) (htfi : Query.transitiveFanin c E = .ok tfi)
    (hin : ∃ s ∈ c.inputs, s ∈ E ++ tfi)
    (h : Tx.sensitizationTransform c n E ord ordE = .ok m)
    (v0 w : Val) (hv0 : Consistent (Tx.inducedSub c (E ++ tfi)) v0) (hw : Inverted (Tx.inducedSub c (E ++ tfi)) n v0 w) :
    ∃ v, Consistent m v ∧ (∀ x ∈ E ++ tfi, v ("c0_" ++ x) = v0 x ∧ v ("c1_" ++ x) = w x) ∧
      (∀ s ∈ (Tx.inducedSub c (E ++ tfi)).inputs, v s = v0 s) := by
  obtain ⟨sc, m0, sp, ep, X⟩ := SensE.eview hord hordE hc.clean hc.nobb hE htfi hin h
  exact X.complete v0 w hv0 hw.1 hw.2.1 hw.2.2

/-- **C11 (influence, exact mode).** with any sound and complete solver, `props.influence(c, n, approx=False)` returns one
    entry per startpoint `s` of `n`; its value is `count / 2^|sp|` where `count` is the number of valuations of the
    startpoints of `n` under which flipping `s` flips `n` (in an acyclic circuit every valuation of the startpoints
    extends to exactly one valuation of the cone) -/
theorem influence_spec (s : Solver) (hs : SolverSpec s) (c : Circuit) (n : Name) (ord : Ord)
    (ordE : List (Name × Name) → List (Name × Name)) (hord : OrdOK ord) (hordE : ∀ l, (ordE l).Perm l)
    (hc : Good c) (hacyc : Acyclic c) (hn : c.has n = true)
    (sp : List Name) (hsp : Query.startpoints c [n] = .ok sp) (hne : sp ≠ [])
    (tfi : List Name) (htfi : Query.transitiveFanin c [n] = .ok tfi)
    (r : List (Name × Nat × Nat)) (h : Props.influence s c n ord ordE = .ok r) :
    let cone := Tx.inducedSub c (n :: tfi)
    r.map (·.1) = ord sp ∧
    ∀ p ∈ r, p.2.2 = sp.length ∧
      ∃ L : List (List Bool), L.Nodup ∧ L.length = p.2.1 ∧
        ∀ bs, bs ∈ L ↔ ∃ v, Consistent cone v ∧ sp.map v = bs ∧ FlipsN cone n p.1 v := by
  intro cone
  unfold Props.influence at h
  rw [hsp] at h
  dsimp only at h
  obtain ⟨hmap, hall⟩ := SensE.mapM_inv _ (fun p : Name × Nat × Nat => p.1) (by
    intro x p hx
    cases hT : Tx.sensitizationTransform c x [n] ord ordE with
    | error e => rw [hT] at hx; cases hx
    | ok m =>
      rw [hT] at hx
      dsimp only at hx
      cases hM : modelCount s m ord [("sat", true)] with
      | error e => rw [hM] at hx; cases hx
      | ok cnt =>
        rw [hM] at hx
        injection hx with hx
        rw [← hx]) _ _ h
  refine ⟨hmap, ?_⟩
  intro p hp
  have hp1 : p.1 ∈ ord sp := by rw [← hmap]; exact List.mem_map.2 ⟨p, hp, rfl⟩
  have hf := hall p hp
  cases hT : Tx.sensitizationTransform c p.1 [n] ord ordE with
  | error e => rw [hT] at hf; cases hf
  | ok m =>
    rw [hT] at hf
    dsimp only at hf
    obtain ⟨L, hnd, hcnt, hmem⟩ := SensE.count_one s hs hord hordE hc.clean hc.nobb hc.nox hn hsp htfi
      ((Sens.ord_mem hord sp _).1 hp1) hT
    rw [hcnt] at hf
    injection hf with hf
    have h2 : p.2.2 = sp.length := by rw [← hf]; exact (hord sp).length_eq
    have h1 : L.length = p.2.1 := by rw [← hf]
    exact ⟨h2, L, hnd, h1, hmem⟩

/-! `influence_ok` as first stated (hypotheses `Good c`, `Acyclic c`, `c.has n`, `sp ≠ []` only) is FALSE: the transform
    builds its sub-circuit with `Circuit.add` (names must be non-empty and must not start with a digit; `subcircuit` raises
    NotImplementedError on blackbox pin nodes) and its miter ties every startpoint by a new input of the same name next to
    the synthesised nodes `sat`, `c0_*`, `c1_*`, `dif_*`.  Three lint-clean, blackbox-free, acyclic counterexamples, each
    with a single startpoint feeding the buffer `g`; `influence` fails for every solver: -/

/-- an input called `sat` (clashes with the miter's `sat` node: ValueError) -/
def cexSat : Circuit :=
  { nodes := [("sat", { ty := some "input", out := some false }), ("g", { ty := some "buf", out := some true })],
    edges := [("sat", "g")] }
/-- an input whose name starts with a digit (`add` refuses it: ValueError) -/
def cexDigit : Circuit :=
  { nodes := [("0a", { ty := some "input", out := some false }), ("g", { ty := some "buf", out := some true })],
    edges := [("0a", "g")] }
/-- a `bb_output` node in a circuit without blackboxes (`subcircuit`: NotImplementedError) -/
def cexPin : Circuit :=
  { nodes := [("p", { ty := some "bb_output", out := some false }), ("g", { ty := some "buf", out := some true })],
    edges := [("p", "g")] }

theorem influence_ok_needs_hclash :
    Good cexSat ∧ Acyclic cexSat ∧ cexSat.has "g" = true ∧ (Query.startpoints cexSat ["g"]).toOption = some ["sat"] ∧
    ∀ s : Solver, ¬ ∃ r, Props.influence s cexSat "g" id id = .ok r := by
  refine ⟨⟨?_, rfl, by decide⟩, ⟨fun x => if x = "g" then 1 else 0, by decide⟩, by decide, by decide +kernel,
    fun s => SensE.influence_fails s cexSat "g" "sat" [] (by decide +kernel) (by decide +kernel)⟩
  exact Limit.lintClean_of_checks cexSat ⟨by decide, by decide, by decide⟩ (by decide) (by decide) (by decide)

theorem influence_ok_needs_hnames :
    Good cexDigit ∧ Acyclic cexDigit ∧ cexDigit.has "g" = true ∧
    (Query.startpoints cexDigit ["g"]).toOption = some ["0a"] ∧
    ∀ s : Solver, ¬ ∃ r, Props.influence s cexDigit "g" id id = .ok r := by
  refine ⟨⟨?_, rfl, by decide⟩, ⟨fun x => if x = "g" then 1 else 0, by decide⟩, by decide, by decide +kernel,
    fun s => SensE.influence_fails s cexDigit "g" "0a" [] (by decide +kernel) (by decide +kernel)⟩
  exact Limit.lintClean_of_checks cexDigit ⟨by decide, by decide, by decide⟩ (by decide) (by decide) (by decide)

theorem influence_ok_needs_hnbb :
    Good cexPin ∧ Acyclic cexPin ∧ cexPin.has "g" = true ∧ (Query.startpoints cexPin ["g"]).toOption = some ["p"] ∧
    ∀ s : Solver, ¬ ∃ r, Props.influence s cexPin "g" id id = .ok r := by
  refine ⟨⟨?_, rfl, by decide⟩, ⟨fun x => if x = "g" then 1 else 0, by decide⟩, by decide, by decide +kernel,
    fun s => SensE.influence_fails s cexPin "g" "p" [] (by decide +kernel) (by decide +kernel)⟩
  exact Limit.lintClean_of_checks cexPin ⟨by decide, by decide, by decide⟩ (by decide) (by decide) (by decide)

/-- hence the first statement of `influence_ok` (without `hnames`, `hnbb`, `hclash`) is refuted outright -/
theorem influence_ok_needs_hyps :
    ¬ ∀ (s : Solver) (_ : SolverSpec s) (c : Circuit) (n : Name) (ord : Ord)
        (ordE : List (Name × Name) → List (Name × Name)) (_ : OrdOK ord) (_ : ∀ l, (ordE l).Perm l)
        (_ : Good c) (_ : Acyclic c) (_ : c.has n = true)
        (sp : List Name) (_ : Query.startpoints c [n] = .ok sp) (_ : sp ≠ []),
        ∃ r, Props.influence s c n ord ordE = .ok r := by
  intro hall
  obtain ⟨hg, hac, hn, hsp, hfail⟩ := influence_ok_needs_hclash
  exact hfail SensE.idealSolver (hall SensE.idealSolver SensE.idealSolver_spec cexSat "g" id id
    (fun l => List.Perm.refl l) (fun l => List.Perm.refl l) hg hac hn ["sat"] (SensE.ok_of_toOption hsp) (by simp))

/-- the model never fails on such inputs.
    ADDED hypotheses (the statement without them is false, see `influence_ok_needs_*` above), all about the cone
    `n :: tfi` of `n` only:
    `hnames` — every node of the cone has a name `Circuit.add` accepts (non-empty, not starting with a digit);
    `hnbb` — no node of the cone is a blackbox pin (`bb_input` / `bb_output`);
    `hclash` — no startpoint of `n` is called `sat` or carries a `c0_` / `c1_` / `dif_` prefix (as in `C04.miter_ok`). -/
theorem influence_ok (s : Solver) (hs : SolverSpec s) (c : Circuit) (n : Name) (ord : Ord)
    (ordE : List (Name × Name) → List (Name × Name)) (hord : OrdOK ord) (hordE : ∀ l, (ordE l).Perm l)
    (hc : Good c) (hacyc : Acyclic c) (hn : c.has n = true)
    (sp : List Name) (hsp : Query.startpoints c [n] = .ok sp) (hne : sp ≠ [])
    (tfi : List Name) (htfi : Query.transitiveFanin c [n] = .ok tfi)
    (hnames : ∀ x ∈ n :: tfi, x ≠ "" ∧ Circuit.isDigit0 x = false)
    (hnbb : ∀ x ∈ n :: tfi, c.ty? x ≠ some "bb_input" ∧ c.ty? x ≠ some "bb_output")
    (hclash : ∀ s ∈ sp, s ≠ "sat" ∧ (∀ x, s ≠ "c0_" ++ x) ∧ (∀ x, s ≠ "c1_" ++ x) ∧ (∀ x, s ≠ "dif_" ++ x)) :
    ∃ r, Props.influence s c n ord ordE = .ok r := by
  apply SensE.influence_ok_core s hs hord hordE hc.clean hc.nobb hc.nox hn hsp htfi ?_ hnbb hclash
  intro x hx
  refine ⟨(hnames x hx).2, ?_⟩
  cases he : x.isEmpty with
  | false => rfl
  | true => exact absurd (String.isEmpty_iff.1 he) (hnames x hx).1

/-- all Boolean vectors of a given length -/
def allBools : Nat → List (List Bool)
  | 0 => [[]]
  | k + 1 => (allBools k).flatMap (fun l => [false :: l, true :: l])

/-- glue: the helper files use a copy of `allBools` -/
theorem allBools_eq : ∀ k, allBools k = SensE.allBoolsF k
  | 0 => rfl
  | k + 1 => by
    rw [allBools, SensE.allBoolsF, allBools_eq k]

/-- **C11 (avg_sensitivity, exact mode).** the returned value `tot / 2^|sp|` is the sum of the influences, and that sum
    is the average, over all valuations of the startpoints, of the number of startpoints whose flip flips `n`
    (so avg_sensitivity ≤ sensitivity): `tot` = Σ over valuations of the size of the flip set -/
theorem avg_sensitivity_spec (s : Solver) (hs : SolverSpec s) (c : Circuit) (n : Name) (ord : Ord)
    (ordE : List (Name × Name) → List (Name × Name)) (hord : OrdOK ord) (hordE : ∀ l, (ordE l).Perm l)
    (hc : Good c) (hacyc : Acyclic c) (hn : c.has n = true)
    (sp : List Name) (hsp : Query.startpoints c [n] = .ok sp) (hne : sp ≠ [])
    (tfi : List Name) (htfi : Query.transitiveFanin c [n] = .ok tfi)
    (tot k : Nat) (h : Props.avgSensitivity s c n ord ordE = .ok (tot, k)) :
    let cone := Tx.inducedSub c (n :: tfi)
    k = sp.length ∧
    (∀ r, Props.influence s c n ord ordE = .ok r → tot = (r.map (·.2.1)).sum) ∧
    ∃ f : List Bool → Nat,
      (∀ v S, Consistent cone v → FlipSet cone n sp v S → S.length = f (sp.map v)) ∧
      tot = ((allBools sp.length).map f).sum := by
  intro cone
  unfold Props.avgSensitivity at h
  cases hI : Props.influence s c n ord ordE with
  | error e => rw [hI] at h; cases h
  | ok r =>
    rw [hI] at h
    injection h with h
    injection h with htot hk
    obtain ⟨hnames, hr⟩ := influence_spec s hs c n ord ordE hord hordE hc hacyc hn sp hsp hne tfi htfi r hI
    have hlen : r.length = sp.length := by
      have := congrArg List.length hnames
      rw [List.length_map, (hord sp).length_eq] at this
      exact this
    refine ⟨by rw [← hk, hlen], ?_, ?_⟩
    · intro r' hr'
      injection hr' with hr'
      rw [← hr', ← htot]
    · obtain ⟨f, hf1, hf2⟩ := SensE.avg_core hord hc.clean hc.nox hacyc hn hsp htfi r hnames
        (fun p hp => (hr p hp).2)
      refine ⟨f, fun v S hv hS => hf1 v S hv hS, ?_⟩
      rw [← htot, hf2, allBools_eq]

/-! non-vacuity -/
def ex : Circuit :=
  { nodes := [("a", { ty := some "input", out := some false }), ("b", { ty := some "input", out := some false }),
              ("g", { ty := some "and", out := some false }), ("o", { ty := some "or", out := some true })],
    edges := [("a", "g"), ("b", "g"), ("g", "o"), ("a", "o")] }
example : (Tx.sensitizationTransform ex "g" [] id id).toOption.map (fun m => m.nodes.length) = some 12 := by decide
example : (Tx.sensitivityTransform ex "g" id).toOption.map (fun m => m.outputs.length) = some 4 := by decide +kernel
example : Good ex := by
  refine ⟨?_, rfl, by decide⟩
  exact Limit.lintClean_of_checks ex ⟨by decide, by decide, by decide⟩ (by decide) (by decide) (by decide)

example : (Props.influence Dpll.dpll ex "g" id id).toOption = some [("a", 2, 2), ("b", 2, 2)] := by decide +kernel
/-- the added hypotheses of `influence_ok` hold for the example (`n = "g"`, cone `g, a, b`, startpoints `a, b`) -/
example : (Query.transitiveFanin ex ["g"]).toOption = some ["a", "b"] ∧
    (Query.startpoints ex ["g"]).toOption = some ["a", "b"] ∧
    (∀ x ∈ ["g", "a", "b"], x ≠ "" ∧ Circuit.isDigit0 x = false) ∧
    (∀ x ∈ ["g", "a", "b"], ex.ty? x ≠ some "bb_input" ∧ ex.ty? x ≠ some "bb_output") ∧
    (∀ s ∈ ["a", "b"], s ≠ "sat" ∧ (∀ x, s ≠ "c0_" ++ x) ∧ (∀ x, s ≠ "c1_" ++ x) ∧ (∀ x, s ≠ "dif_" ++ x)) := by
  refine ⟨by decide +kernel, by decide +kernel, by decide, by decide, ?_⟩
  intro s hs
  simp only [List.mem_cons, List.not_mem_nil, or_false] at hs
  have key : ∀ (p x : String), p.length = 3 ∨ p.length = 4 → s.length = 1 → s ≠ p ++ x := by
    intro p x hp hl e
    rw [e, String.length_append] at hl
    omega
  have hl : s.length = 1 := by rcases hs with rfl | rfl <;> decide
  refine ⟨?_, fun x => key "c0_" x (by decide) hl, fun x => key "c1_" x (by decide) hl,
    fun x => key "dif_" x (by decide) hl⟩
  rcases hs with rfl | rfl <;> decide
example : (Props.avgSensitivity Dpll.dpll ex "g" id id).toOption = some (4, 2) := by decide +kernel

end CG.C11
