/-
  C06 — hierarchical composition is functional substitution.
  Property theorems only; helper lemmas live in CG/Proofs/Compose*.lean.
-/
import CG.Tx
import CG.Spec
import CG.Proofs.Compose
import CG.Proofs.Strip
namespace CG.C06
open Circuit

/-- what `strip_io=True` does to a spliced node's attributes -/
def stripAttr (a : Attr) : Attr :=
  { ty := if a.ty = some "input" then some "buf" else a.ty,
    out := if a.out = some true then some false else a.out }

/-- the wires requested by a connection map: child inputs are driven by the given nets, child outputs drive them -/
def connEdges (sc : Circuit) (name : Name) (conns : List (Name × List Name)) : List (Name × Name) :=
  conns.flatMap (fun p =>
    if sc.inputs.contains p.1 then p.2.map (fun u => (u, pref name p.1))
    else p.2.map (fun v => (pref name p.1, v)))

/-- every node carries both attributes (true of every circuit built through the API) -/
def FullAttrs (c : Circuit) : Prop := ∀ p ∈ c.nodes, p.2.ty.isSome = true ∧ p.2.out.isSome = true

/-- **structure of a successful `add_subcircuit`**: the parent's nodes are untouched and keep their order, the
    child's nodes follow under prefixed names with io stripped, the wires are the parent's, the child's (prefixed)
    and exactly the requested connections, sub-blackboxes are carried over under prefixed instance names -/
theorem add_subcircuit_struct (P sc P' : Circuit) (name : Name) (conns : List (Name × List Name))
    (hP : WF P) (hsc : WF sc) (hbbs : (sc.bbs.map (·.1)).Nodup) (h : P.addSubcircuit sc name conns true = (P', .ok)) :
    P'.nodes = P.nodes ++ sc.nodes.map (fun p => (pref name p.1, stripAttr p.2)) ∧
    (∀ e, e ∈ P'.edges ↔ e ∈ P.edges ∨ e ∈ sc.edges.map (fun e => (pref name e.1, pref name e.2)) ∨
                          e ∈ connEdges sc name conns) ∧
    P'.bbs = P.bbs ++ sc.bbs.map (fun p => (pref name p.1, p.2)) ∧
    P'.name = P.name ∧ WF P' := by
  have F := addSub_facts hP hsc h
  refine ⟨F.nodes, ?_, F.bbs hbbs, F.nameEq, F.wf hP hsc⟩
  intro e
  rw [F.mem e, ← mem_connE]
  rfl

/-- the parent's own input/output lists are unchanged -/
theorem add_subcircuit_io (P sc P' : Circuit) (name : Name) (conns : List (Name × List Name))
    (hP : WF P) (hsc : WF sc) (h : P.addSubcircuit sc name conns true = (P', .ok)) :
    P'.inputs = P.inputs ∧ P'.outputs = P.outputs :=
  (addSub_facts hP hsc h).io

/-- **C06 (add_subcircuit).** for every valuation consistent with the result:
    (a) the spliced nodes, read through the prefix, satisfy every gate equation of the child (so each `name_n`
        takes the value `n` has in `sc` under the values its inputs receive);
    (b) a connected child input is a buffer of the net it was attached to;
    (c) every pre-existing node that is not the target of an output connection keeps its equation.
    `hfb` (added, see REPORT.md / `CG/Props/C06Cex.lean`): no output connection feeds back into a non-input node
    of the spliced child; without it (a) is false (`connections = {"out": "m_and_0"}`). -/
theorem add_subcircuit_sem (P sc P' : Circuit) (name : Name) (conns : List (Name × List Name))
    (hP : WF P) (hsc : WF sc) (h : P.addSubcircuit sc name conns true = (P', .ok))
    (hfb : ∀ q ∈ conns, q.1 ∉ sc.inputs → ∀ p ∈ sc.nodes, p.2.ty ≠ some "input" → pref name p.1 ∉ q.2)
    (v : Val) (hv : Consistent P' v) :
    (∀ p ∈ sc.nodes, ∀ t, p.2.ty = some t → t ≠ "input" → NodeOK sc (fun n => v (pref name n)) p.1 t) ∧
    (∀ p ∈ conns, p.1 ∈ sc.inputs → ∀ u ∈ p.2, v (pref name p.1) = v u) ∧
    (∀ p ∈ P.nodes, ∀ t, p.2.ty = some t →
        (∀ q ∈ conns, q.1 ∉ sc.inputs → p.1 ∉ q.2) → NodeOK P v p.1 t) := by
  obtain ⟨s1, s2, s3⟩ := (addSub_facts hP hsc h).sem hP hsc v hv
  refine ⟨?_, s2, s3⟩
  intro p hp t ht hne
  apply s1 p hp t ht hne
  intro q hq hqi
  apply hfb q hq hqi p hp
  rw [ht]
  intro e
  injection e with e
  exact hne e

/-- conversely, with no connections the composite is exactly the disjoint union: a valuation is consistent with the
    result iff it is consistent with the parent and, read through the prefix, with the io-stripped child -/
theorem add_subcircuit_disjoint (P sc P' : Circuit) (name : Name)
    (hP : WF P) (hsc : WF sc) (h : P.addSubcircuit sc name [] true = (P', .ok)) (v : Val) :
    Consistent P' v ↔ (Consistent P v ∧ Consistent (Tx.stripIO sc) (fun n => v (pref name n))) :=
  (addSub_facts hP hsc h).disjoint hP hsc v

/-- repeated instantiation under different names never interferes: prefixes are injective -/
theorem pref_injective (name : Name) (a b : Name) (h : pref name a = pref name b) : a = b :=
  pref_inj name h

/-- pin names of instance `inst`, renamed by `fill_blackbox` -/
def renPin (inst : Name) (bb : BBox) (x : Name) : Name :=
  match (bb.outs ++ bb.ins).find? (fun p => x == inst ++ "." ++ p) with
  | some p => pref inst p
  | none => x

/-- **structure of a successful `fill_blackbox`** (set level): pins are renamed onto the child's io nodes, the child
    is merged under prefixed names with inputs turned into buffers and outputs unmarked, the instance disappears
    from the registry and the child's blackboxes are carried over -/
theorem fill_blackbox_struct (P sub P' : Circuit) (inst : Name) (bb : BBox) (ord : Ord) (hord : OrdOK ord)
    (hP : WF P) (hsub : WF sub) (hfull : FullAttrs sub) (hbbs : (sub.bbs.map (·.1)).Nodup)
    (hbb : P.bbs.lookup inst = some bb)
    (h : P.fillBlackbox inst sub ord = (P', .ok)) :
    (∀ n, P'.has n = true ↔ ((P.has n = true ∧ ∀ p ∈ bb.outs ++ bb.ins, n ≠ inst ++ "." ++ p) ∨
                             ∃ m, sub.has m = true ∧ n = pref inst m)) ∧
    (∀ m a, (m, a) ∈ sub.nodes → P'.attr? (pref inst m) = some (stripAttr a)) ∧
    (∀ n, P.has n = true → (∀ p ∈ bb.outs ++ bb.ins, n ≠ inst ++ "." ++ p) → P'.attr? n = P.attr? n) ∧
    (∀ e, e ∈ P'.edges ↔ (∃ e0 ∈ P.edges, e = (renPin inst bb e0.1, renPin inst bb e0.2)) ∨
                          e ∈ sub.edges.map (fun e => (pref inst e.1, pref inst e.2))) ∧
    P'.bbs = (P.bbs.filter (fun p => !(p.1 == inst))) ++ sub.bbs.map (fun p => (pref inst p.1, p.2)) ∧
    WF P' := by
  have F := fill_facts hord hP hsub hfull hbb h
  exact ⟨F.has, F.attrChild, F.attrParent, F.mem_edges, F.bbs hbbs, F.wf hP hsub⟩

/-- **C06 (fill_blackbox).** for every valuation consistent with the result, the spliced nodes satisfy every gate
    equation of the child, and each child input `inst_p` is a buffer of whatever drove the pin `inst.p` -/
theorem fill_blackbox_sem (P sub P' : Circuit) (inst : Name) (bb : BBox) (ord : Ord) (hord : OrdOK ord)
    (hP : WF P) (hsub : WF sub) (hfull : FullAttrs sub) (hin : ∀ p ∈ sub.inputs, sub.fanin p = [])
    (hbb : P.bbs.lookup inst = some bb)
    (h : P.fillBlackbox inst sub ord = (P', .ok)) (v : Val) (hv : Consistent P' v) :
    (∀ p ∈ sub.nodes, ∀ t, p.2.ty = some t → t ≠ "input" →
        (∀ q ∈ bb.outs, p.1 ≠ q ∨ P.fanin (inst ++ "." ++ q) = []) →
        NodeOK sub (fun n => v (pref inst n)) p.1 t) ∧
    (∀ p ∈ bb.ins, ∀ u, P.fanin (inst ++ "." ++ p) = [u] → (∀ q ∈ bb.outs ++ bb.ins, u ≠ inst ++ "." ++ q) →
        v (pref inst p) = v u) :=
  (fill_facts hord hP hsub hfull hbb h).sem hP hsub hin v hv

/-! ### strip_blackboxes -/

/-- a blackbox pin node that `strip_blackboxes` deletes (its pin name is among `ignore_pins`) / keeps and exposes -/
def isPin (c : Circuit) (n : Name) : Bool := c.ty? n == some "bb_input" || c.ty? n == some "bb_output"
def droppedPin (c : Circuit) (ignore : List Name) (n : Name) : Bool := isPin c n && ignore.contains (Tx.lastDot n)
def keptPin (c : Circuit) (ignore : List Name) (n : Name) : Bool := isPin c n && !ignore.contains (Tx.lastDot n)
/-- the name a node of `c` has in the stripped circuit: `inst_pin` for an exposed pin, unchanged otherwise -/
def stripName (c : Circuit) (ignore : List Name) (n : Name) : Name :=
  if keptPin c ignore n then Tx.replaceDots n else n

/-- glue: the vocabulary above is the one the helper lemmas of `CG/Proofs/Strip*.lean` are stated in -/
theorem isPin_eq : @isPin = @Strip.isPin := rfl
theorem droppedPin_eq : @droppedPin = @Strip.dropped := rfl
theorem keptPin_eq : @keptPin = @Strip.kept := rfl
theorem stripName_eq : @stripName = @Strip.sname := rfl

/-- **C06 (strip_blackboxes).** a successful call returns a blackbox-free circuit in which every kept input pin
    `inst.pin` is an output buffer `inst_pin` driven as the pin was, every kept output pin is a primary input `inst_pin`
    driving what the pin drove, ignored pins are gone, every other node keeps its type and output mark, the wiring
    between surviving nodes is unchanged, and no surviving node changes its function: consistent valuations of the two
    circuits correspond on all surviving nodes — for every ignore list and every set-iteration order -/
theorem strip_blackboxes_spec (c c' : Circuit) (ignore : List Name) (ord : Ord) (hord : OrdOK ord) (hc : LintClean c)
    (h : Tx.stripBlackboxes c ignore ord = .ok c') :
    c'.bbs = [] ∧ c'.name = c.name ∧
    (∀ m, c'.has m = true ↔ ∃ n, c.has n = true ∧ droppedPin c ignore n = false ∧ m = stripName c ignore n) ∧
    (∀ n₁ n₂, c.has n₁ = true → c.has n₂ = true → droppedPin c ignore n₁ = false → droppedPin c ignore n₂ = false →
        stripName c ignore n₁ = stripName c ignore n₂ → n₁ = n₂) ∧
    (∀ n, c.has n = true → isPin c n = false → c'.attr? n = c.attr? n) ∧
    (∀ n, c.ty? n = some "bb_input" → keptPin c ignore n = true →
        c'.ty? (Tx.replaceDots n) = some "buf" ∧ c'.isOut (Tx.replaceDots n) = true) ∧
    (∀ n, c.ty? n = some "bb_output" → keptPin c ignore n = true → c'.ty? (Tx.replaceDots n) = some "input") ∧
    (∀ a b, c.has a = true → c.has b = true → droppedPin c ignore a = false → droppedPin c ignore b = false →
        ((stripName c ignore a, stripName c ignore b) ∈ c'.edges ↔ (a, b) ∈ c.edges)) ∧
    (∀ v', Consistent c' v' → ∃ v, Consistent c v ∧
        ∀ n, c.has n = true → droppedPin c ignore n = false → v n = v' (stripName c ignore n)) ∧
    (∀ v, Consistent c v → ∃ v', Consistent c' v' ∧
        ∀ n, c.has n = true → droppedPin c ignore n = false → v' (stripName c ignore n) = v n) := by
  obtain ⟨hb, S⟩ := Strip.strip_ok (ig := ignore) hord hc.toWF h
  refine ⟨hb, S.name, S.has, S.inj, S.attrKeep, ?_, ?_, ?_, ?_, ?_⟩
  · intro n hty hk
    have ha := S.attrIn n hty hk
    exact ⟨by simp [Circuit.ty?, ha], by simp [Circuit.isOut, ha]⟩
  · intro n hty hk
    have hh : (c.attr? n).isSome = true := by rw [← has_eq_isSome]; exact has_of_ty? hty
    cases hca : c.attr? n with
    | none => rw [hca] at hh; cases hh
    | some a =>
      have hta : a.ty = some "bb_output" := by simpa [Circuit.ty?, hca] using hty
      have ha := S.attrOut n a hca hta hk
      simp [Circuit.ty?, ha]
  · intro a b ha hb' da db
    rw [S.edges]
    constructor
    · rintro ⟨a', b', hab, da', db', e⟩
      injection e with e1 e2
      have h1 := S.inj a a' ha (hc.closed _ hab).1 da da' e1
      have h2 := S.inj b b' hb' (hc.closed _ hab).2 db db' e2
      rw [h1, h2]; exact hab
    · intro hab
      exact ⟨a, b, hab, da, db, rfl⟩
  · intro v' hv'
    exact ⟨Strip.pullVal c ignore v', Strip.pull_consistent hc S v' hv', fun n _ hd => Strip.pullVal_surv v' hd⟩
  · intro v hv
    exact ⟨Strip.pushVal c ignore v, Strip.push_consistent hc S v hv, fun n h1 hd => Strip.pushVal_surv S v h1 hd⟩

/-- colliding exposed names are rejected, never merged (K32): an exposed name that is already a node, or two pins with
    the same exposed name -/
theorem strip_blackboxes_rejects_overlap (c : Circuit) (ignore : List Name) (ord : Ord) (hord : OrdOK ord)
    (hty : ∀ p ∈ c.nodes, p.2.ty.isSome = true) (hnd : c.nodeNames.Nodup)
    (hov : (∃ n, c.has n = true ∧ keptPin c ignore n = true ∧ c.has (Tx.replaceDots n) = true ∧
              droppedPin c ignore (Tx.replaceDots n) = false) ∨
           (∃ n₁ n₂, n₁ ≠ n₂ ∧ c.has n₁ = true ∧ c.has n₂ = true ∧ keptPin c ignore n₁ = true ∧ keptPin c ignore n₂ = true ∧
              Tx.replaceDots n₁ = Tx.replaceDots n₂)) :
    Tx.stripBlackboxes c ignore ord = .error .valueError := by
  exact Strip.strip_rejects (ig := ignore) hord hty hnd hov

/-- non-vacuity: a flop instance stripped with its clock ignored -/
def exStrip : Circuit :=
  { name := "top",
    nodes := [("a", { ty := some "input", out := some false }), ("k", { ty := some "input", out := some false }),
              ("u.clk", { ty := some "bb_input", out := some false }), ("u.d", { ty := some "bb_input", out := some false }),
              ("u.q", { ty := some "bb_output", out := some false }), ("o", { ty := some "buf", out := some true })],
    edges := [("a", "u.d"), ("k", "u.clk"), ("u.q", "o")],
    bbs := [("u", { name := "ff", ins := ["clk", "d"], outs := ["q"] })] }
example : (Tx.stripBlackboxes exStrip ["clk"] id).toOption.map (fun c' => (c'.nodeNames, c'.edges, c'.inputs, c'.outputs)) =
    some (["a", "k", "o", "u_d", "u_q"], [("a", "u_d"), ("u_q", "o")], ["a", "k", "u_q"], ["o", "u_d"]) := by decide +kernel

/-! non-vacuity: the doc-string example (a mux child spliced with connections) goes through the model -/
def child : Circuit :=
  { name := "mux", nodes := [("in_0", { ty := some "input", out := some false }), ("in_1", { ty := some "input", out := some false }),
              ("sel_0", { ty := some "input", out := some false }), ("not_sel_0", { ty := some "not", out := some false }),
              ("and_0", { ty := some "and", out := some false }), ("and_1", { ty := some "and", out := some false }),
              ("out", { ty := some "or", out := some true })],
    edges := [("sel_0", "not_sel_0"), ("sel_0", "and_0"), ("in_0", "and_0"), ("not_sel_0", "and_1"), ("in_1", "and_1"),
              ("and_0", "out"), ("and_1", "out")] }
def parent : Circuit :=
  { nodes := [("a", { ty := some "input", out := some false }), ("b", { ty := some "input", out := some false }),
              ("s", { ty := some "input", out := some false }), ("o", { ty := some "buf", out := some true })] }
example : (parent.addSubcircuit child "m" [("in_0", ["a"]), ("in_1", ["b"]), ("sel_0", ["s"]), ("out", ["o"])] true).2 = .ok := by
  decide
/-- the extra hypothesis `hfb` of `add_subcircuit_sem` holds for the doc-string example -/
example : ∀ q ∈ [("in_0", ["a"]), ("in_1", ["b"]), ("sel_0", ["s"]), ("out", ["o"])], q.1 ∉ child.inputs →
    ∀ p ∈ child.nodes, p.2.ty ≠ some "input" → pref "m" p.1 ∉ q.2 := by
  decide
example : WF parent ∧ WF child := by
  refine ⟨⟨by decide, by decide, by decide⟩, ⟨by decide, by decide, by decide⟩⟩

end CG.C06
