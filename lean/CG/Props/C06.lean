/-
  C06 — hierarchical composition is functional substitution.
  Property theorems only; helper lemmas live in CG/Proofs/Compose*.lean.
-/
import CG.Tx
import CG.Spec
import CG.Proofs.Compose
namespace CG.C06
open Circuit

/-- what `strip_io=True` does to a spliced node's attributes -/
def stripAttr (a : Attr) : Attr :=
  { ty := if a.ty = some "input" then some "buf" else a.ty,
    out := if a.out = some true then some false else a.out }

/-- the wires requested by a connection map: child inputs are driven by the given nets, child outputs drive them -/
def connEdges (sc : Circuit) (name : Name) (conns : List (Name × List Name)) : List (Name × Name) :=
  conns.flatMap (fun p =>
    if sc.inputs.contains p.1 then p.2.map (fun u => (u, pref name p.1))
    else p.2.map (fun v => (pref name p.1, v)))

/-- every node carries both attributes (true of every circuit built through the API) -/
def FullAttrs (c : Circuit) : Prop := ∀ p ∈ c.nodes, p.2.ty.isSome = true ∧ p.2.out.isSome = true

/-- **structure of a successful `add_subcircuit`**: the parent's nodes are untouched and keep their order, the
    child's nodes follow under prefixed names with io stripped, the wires are the parent's, the child's (prefixed)
    and exactly the requested connections, sub-blackboxes are carried over under prefixed instance names -/
theorem add_subcircuit_struct (P sc P' : Circuit) (name : Name) (conns : List (Name × List Name))
    (hP : WF P) (hsc : WF sc) (hbbs : (sc.bbs.map (·.1)).Nodup) (h : P.addSubcircuit sc name conns true = (P', .ok)) :
    P'.nodes = P.nodes ++ sc.nodes.map (fun p => (pref name p.1, stripAttr p.2)) ∧
    (∀ e, e ∈ P'.edges ↔ e ∈ P.edges ∨ e ∈ sc.edges.map (fun e => (pref name e.1, pref name e.2)) ∨
                          e ∈ connEdges sc name conns) ∧
    P'.bbs = P.bbs ++ sc.bbs.map (fun p => (pref name p.1, p.2)) ∧
    P'.name = P.name ∧ WF P' := by
  have F := addSub_facts hP hsc h
  refine ⟨F.nodes, ?_, F.bbs hbbs, F.nameEq, F.wf hP hsc⟩
  intro e
  rw [F.mem e, ← mem_connE]
  rfl

/-- the parent's own input/output lists are unchanged -/
theorem add_subcircuit_io (P sc P' : Circuit) (name : Name) (conns : List (Name × List Name))
    (hP : WF P) (hsc : WF sc) (h : P.addSubcircuit sc name conns true = (P', .ok)) :
    P'.inputs = P.inputs ∧ P'.outputs = P.outputs :=
  (addSub_facts hP hsc h).io

/-- **C06 (add_subcircuit).** for every valuation consistent with the result:
    (a) the spliced nodes, read through the prefix, satisfy every gate equation of the child (so each `name_n`
        takes the value `n` has in `sc` under the values its inputs receive);
    (b) a connected child input is a buffer of the net it was attached to;
    (c) every pre-existing node that is not the target of an output connection keeps its equation.
    `hfb` (added, see REPORT.md / `CG/Props/C06Cex.lean`): no output connection feeds back into a non-input node
    of the spliced child; without it (a) is false (`connections = {"out": "m_and_0"}`). -/
theorem add_subcircuit_sem (P sc P' : Circuit) (name : Name) (conns : List (Name × List Name))
    (hP : WF P) (hsc : WF sc) (h : P.addSubcircuit sc name conns true = (P', .ok))
    (hfb : ∀ q ∈ conns, q.1 ∉ sc.inputs → ∀ p ∈ sc.nodes, p.2.ty ≠ some "input" → pref name p.1 ∉ q.2)
    (v : Val) (hv : Consistent P' v) :
    (∀ p ∈ sc.nodes, ∀ t, p.2.ty = some t → t ≠ "input" → NodeOK sc (fun n => v (pref name n)) p.1 t) ∧
    (∀ p ∈ conns, p.1 ∈ sc.inputs → ∀ u ∈ p.2, v (pref name p.1) = v u) ∧
    (∀ p ∈ P.nodes, ∀ t, p.2.ty = some t →
        (∀ q ∈ conns, q.1 ∉ sc.inputs → p.1 ∉ q.2) → NodeOK P v p.1 t) := by
  obtain ⟨s1, s2, s3⟩ := (addSub_facts hP hsc h).sem hP hsc v hv
  refine ⟨?_, s2, s3⟩
  intro p hp t ht hne
  apply s1 p hp t ht hne
  intro q hq hqi
  apply hfb q hq hqi p hp
  rw [ht]
  intro e
  injection e with e
  exact hne e

/-- conversely, with no connections the composite is exactly the disjoint union: a valuation is consistent with the
    result iff it is consistent with the parent and, read through the prefix, with the io-stripped child -/
theorem add_subcircuit_disjoint (P sc P' : Circuit) (name : Name)
    (hP : WF P) (hsc : WF sc) (h : P.addSubcircuit sc name [] true = (P', .ok)) (v : Val) :
    Consistent P' v ↔ (Consistent P v ∧ Consistent (Tx.stripIO sc) (fun n => v (pref name n))) :=
  (addSub_facts hP hsc h).disjoint hP hsc v

/-- repeated instantiation under different names never interferes: prefixes are injective -/
theorem pref_injective (name : Name) (a b : Name) (h : pref name a = pref name b) : a = b :=
  pref_inj name h

/-- pin names of instance `inst`, renamed by `fill_blackbox` -/
def renPin (inst : Name) (bb : BBox) (x : Name) : Name :=
  match (bb.outs ++ bb.ins).find? (fun p => x == inst ++ "." ++ p) with
  | some p => pref inst p
  | none => x

/-- **structure of a successful `fill_blackbox`** (set level): pins are renamed onto the child's io nodes, the child
    is merged under prefixed names with inputs turned into buffers and outputs unmarked, the instance disappears
    from the registry and the child's blackboxes are carried over -/
theorem fill_blackbox_struct (P sub P' : Circuit) (inst : Name) (bb : BBox) (ord : Ord) (hord : OrdOK ord)
    (hP : WF P) (hsub : WF sub) (hfull : FullAttrs sub) (hbbs : (sub.bbs.map (·.1)).Nodup)
    (hbb : P.bbs.lookup inst = some bb)
    (h : P.fillBlackbox inst sub ord = (P', .ok)) :
    (∀ n, P'.has n = true ↔ ((P.has n = true ∧ ∀ p ∈ bb.outs ++ bb.ins, n ≠ inst ++ "." ++ p) ∨
                             ∃ m, sub.has m = true ∧ n = pref inst m)) ∧
    (∀ m a, (m, a) ∈ sub.nodes → P'.attr? (pref inst m) = some (stripAttr a)) ∧
    (∀ n, P.has n = true → (∀ p ∈ bb.outs ++ bb.ins, n ≠ inst ++ "." ++ p) → P'.attr? n = P.attr? n) ∧
    (∀ e, e ∈ P'.edges ↔ (∃ e0 ∈ P.edges, e = (renPin inst bb e0.1, renPin inst bb e0.2)) ∨
                          e ∈ sub.edges.map (fun e => (pref inst e.1, pref inst e.2))) ∧
    P'.bbs = (P.bbs.filter (fun p => !(p.1 == inst))) ++ sub.bbs.map (fun p => (pref inst p.1, p.2)) ∧
    WF P' := by
  have F := fill_facts hord hP hsub hfull hbb h
  exact ⟨F.has, F.attrChild, F.attrParent, F.mem_edges, F.bbs hbbs, F.wf hP hsub⟩

/-- **C06 (fill_blackbox).** for every valuation consistent with the result, the spliced nodes satisfy every gate
    equation of the child, and each child input `inst_p` is a buffer of whatever drove the pin `inst.p` -/
theorem fill_blackbox_sem (P sub P' : Circuit) (inst : Name) (bb : BBox) (ord : Ord) (hord : OrdOK ord)
    (hP : WF P) (hsub : WF sub) (hfull : FullAttrs sub) (hin : ∀ p ∈ sub.inputs, sub.fanin p = [])
    (hbb : P.bbs.lookup inst = some bb)
    (h : P.fillBlackbox inst sub ord = (P', .ok)) (v : Val) (hv : Consistent P' v) :
    (∀ p ∈ sub.nodes, ∀ t, p.2.ty = some t → t ≠ "input" →
        (∀ q ∈ bb.outs, p.1 ≠ q ∨ P.fanin (inst ++ "." ++ q) = []) →
        NodeOK sub (fun n => v (pref inst n)) p.1 t) ∧
    (∀ p ∈ bb.ins, ∀ u, P.fanin (inst ++ "." ++ p) = [u] → (∀ q ∈ bb.outs ++ bb.ins, u ≠ inst ++ "." ++ q) →
        v (pref inst p) = v u) :=
  (fill_facts hord hP hsub hfull hbb h).sem hP hsub hin v hv

/-! non-vacuity: the doc-string example (a mux child spliced with connections) goes through the model -/
def child : Circuit :=
  { name := "mux", nodes := [("in_0", { ty := some "input", out := some false }), ("in_1", { ty := some "input", out := some false }),
              ("sel_0", { ty := some "input", out := some false }), ("not_sel_0", { ty := some "not", out := some false }),
              ("and_0", { ty := some "and", out := some false }), ("and_1", { ty := some "and", out := some false }),
              ("out", { ty := some "or", out := some true })],
    edges := [("sel_0", "not_sel_0"), ("sel_0", "and_0"), ("in_0", "and_0"), ("not_sel_0", "and_1"), ("in_1", "and_1"),
              ("and_0", "out"), ("and_1", "out")] }
def parent : Circuit :=
  { nodes := [("a", { ty := some "input", out := some false }), ("b", { ty := some "input", out := some false }),
              ("s", { ty := some "input", out := some false }), ("o", { ty := some "buf", out := some true })] }
example : (parent.addSubcircuit child "m" [("in_0", ["a"]), ("in_1", ["b"]), ("sel_0", ["s"]), ("out", ["o"])] true).2 = .ok := by
  decide
/-- the extra hypothesis `hfb` of `add_subcircuit_sem` holds for the doc-string example -/
example : ∀ q ∈ [("in_0", ["a"]), ("in_1", ["b"]), ("sel_0", ["s"]), ("out", ["o"])], q.1 ∉ child.inputs →
    ∀ p ∈ child.nodes, p.2.ty ≠ some "input" → pref "m" p.1 ∉ q.2 := by
  decide
example : WF parent ∧ WF child := by
  refine ⟨⟨by decide, by decide, by decide⟩, ⟨by decide, by decide, by decide⟩⟩

end CG.C06
