/-
  C09 — unrolling equals iterated execution.
  Property theorems only; helper lemmas live in CG/Proofs/Unroll*.lean.
-/
import CG.Tx
import CG.Tx3
import CG.Spec
import CG.Props.C06
import CG.Proofs.Unroll
import CG.Proofs.UnrollSeqSem
import CG.Proofs.UnrollSeqDictMain
namespace CG.C09

/-- the circuits the statement ranges over: lint-clean and blackbox-free -/
structure Good (c : Circuit) : Prop where
  clean : LintClean c
  nobb : c.bbs = []

/-- an injective pairing of state outputs (keys) to state inputs (values) -/
structure Pairing (c : Circuit) (stateIO : List (Name × Name)) : Prop where
  keysOut : ∀ p ∈ stateIO, p.1 ∈ c.outputs
  valsIn : ∀ p ∈ stateIO, p.2 ∈ c.inputs
  keysNodup : (stateIO.map (·.1)).Nodup
  valsNodup : (stateIO.map (·.2)).Nodup
  disjoint : ∀ p ∈ stateIO, ∀ q ∈ stateIO, p.1 ≠ q.2

/-- the copy of `c` for step `t`, read out of a valuation of the unrolled circuit -/
def stepVal (v : Val) (t : Nat) : Val := fun x => v ("unrolled_" ++ toString t ++ "_" ++ x)

/-- `n < 1`, blackboxes, or a state_io entry that is not io of the circuit are rejected with ValueError -/
theorem unroll_rejects (c : Circuit) (n : Nat) (stateIO : List (Name × Name)) (pfx : String) (ord : Ord)
    (h : c.bbs ≠ [] ∨ n < 1) : Tx.unroll c n stateIO pfx ord = .error .valueError := by
  unfold Tx.unroll
  by_cases hb : c.bbs = []
  · rcases h with h | h
    · exact absurd hb h
    · rw [hb]
      simp [h]
  · have : (!c.bbs.isEmpty) = true := by
      cases hc : c.bbs with
      | nil => exact absurd hc hb
      | cons a l => rfl
    rw [if_pos this]

/-- **C09 (unroll).** for every valuation `v` consistent with the unrolled circuit, the per-step copies
    `stepVal v 0 … stepVal v (n-1)` form an execution of `c`: each is a consistent valuation of `c`, every state
    input at step t+1 carries the value of its paired state output at step t, and the io map names, for every io
    node `x` and step `t`, a node carrying `x`'s value at step `t` -/
theorem unroll_sem (c uc : Circuit) (n : Nat) (stateIO : List (Name × Name)) (pfx : String) (ord : Ord)
    (hord : OrdOK ord) (hc : Good c) (hp : Pairing c stateIO) (ioMap : List (Name × List Name))
    (h : Tx.unroll c n stateIO pfx ord = .ok (uc, ioMap)) (v : Val) (hv : Consistent uc v) :
    (∀ t, t < n → Consistent c (stepVal v t)) ∧
    (∀ t, t + 1 < n → ∀ p ∈ stateIO, stepVal v (t + 1) p.2 = stepVal v t p.1) ∧
    (∀ x, x ∈ c.io → ∀ t, t < n → v (Tx.ioName ioMap x t) = stepVal v t x) := by
  obtain ⟨_, hmem, hloop⟩ := Unroll.unroll_unfold h
  have C := Unroll.ctx_of hord hc.clean.toWF hp.valsIn (fun p hp' => (hmem p hp').1) hp.valsNodup
  have I := Unroll.loop C n _ hloop
  obtain ⟨s1, s2, s3⟩ := I.sem C hv
  have hm : ioMap = Unroll.mapAt c pfx (ord c.io) n := I.map
  refine ⟨s1, s2, ?_⟩
  intro x hx t ht
  have hx' : x ∈ ord c.io := (hord c.io).mem_iff.2 hx
  rw [hm, Unroll.ioName_mapAt _ _ _ _ hx' ht]
  exact s3 x hx' t ht

/-- the io map has one entry per io node with `n` names each, and the free inputs of the unrolled circuit are
    exactly the step-0 state inputs and the per-step copies of the other inputs.
    This includes a state output that is itself an input node (an input marked as output): since the library fix K33
    only state *inputs* are forced to buffers, so its per-step copies stay inputs (regression example in
    `CG/Proofs/UnrollCex.lean`); the former extra hypothesis `hki` is no longer needed. -/
theorem unroll_inputs (c uc : Circuit) (n : Nat) (stateIO : List (Name × Name)) (pfx : String) (ord : Ord)
    (hord : OrdOK ord) (hc : Good c) (hp : Pairing c stateIO)
    (ioMap : List (Name × List Name))
    (h : Tx.unroll c n stateIO pfx ord = .ok (uc, ioMap)) :
    (ioMap.map (·.1)).Perm c.io ∧ (∀ p ∈ ioMap, p.2.length = n) ∧
    (∀ y, y ∈ uc.inputs ↔
      ((∃ p ∈ stateIO, y = Tx.ioName ioMap p.2 0) ∨
       (∃ x ∈ c.inputs, (∀ p ∈ stateIO, p.2 ≠ x) ∧ ∃ t, t < n ∧ y = Tx.ioName ioMap x t))) ∧
    (∀ y, y ∈ uc.outputs ↔ ∃ x ∈ c.outputs, ∃ t, t < n ∧ y = Tx.ioName ioMap x t) := by
  obtain ⟨hn, hmem, hloop⟩ := Unroll.unroll_unfold h
  have C := Unroll.ctx_of hord hc.clean.toWF hp.valsIn (fun p hp' => (hmem p hp').1) hp.valsNodup
  have I := Unroll.loop C n _ hloop
  have hm : ioMap = Unroll.mapAt c pfx (ord c.io) n := I.map
  have hname : ∀ x ∈ ord c.io, ∀ t, t < n → Tx.ioName ioMap x t = Unroll.N c pfx x t := fun x hx t ht => by
    rw [hm, Unroll.ioName_mapAt _ _ _ _ hx ht]
  refine ⟨?_, ?_, ?_, ?_⟩
  · have : ioMap.map (·.1) = ord c.io := by
      rw [hm]
      unfold Unroll.mapAt
      rw [List.map_map]
      exact List.map_id' _
    rw [this]
    exact hord c.io
  · intro p hp'
    rw [hm] at hp'
    obtain ⟨x, _, rfl⟩ := List.mem_map.1 hp'
    simp
  · intro y
    refine (I.inputs_iff y).trans ((Unroll.inputs_target C hn y).trans ?_)
    constructor
    · rintro (⟨p, hp', e⟩ | ⟨x, hx, hne, t, ht, e⟩)
      · exact Or.inl ⟨p, hp', by rw [hname _ (C.ioIn _ (C.valsIn p hp')) 0 hn]; exact e⟩
      · exact Or.inr ⟨x, hx, hne, t, ht, by rw [hname _ (C.ioIn x hx) t ht]; exact e⟩
    · rintro (⟨p, hp', e⟩ | ⟨x, hx, hne, t, ht, e⟩)
      · exact Or.inl ⟨p, hp', by rw [← hname _ (C.ioIn _ (C.valsIn p hp')) 0 hn]; exact e⟩
      · exact Or.inr ⟨x, hx, hne, t, ht, by rw [← hname _ (C.ioIn x hx) t ht]; exact e⟩
  · intro y
    have hout : ∀ x ∈ c.outputs, x ∈ ord c.io := fun x hx => (hord c.io).mem_iff.2 (mem_union.2 (Or.inr hx))
    refine (I.outputs_iff C y).trans ?_
    constructor
    · rintro ⟨t, ht, x, hx, e, ho⟩
      exact ⟨x, ho, t, ht, by rw [hname x hx t ht]; exact e⟩
    · rintro ⟨x, ho, t, ht, e⟩
      exact ⟨t, ht, x, hout x ho, by rw [← hname x (hout x ho) t ht]; exact e, ho⟩

/-- every execution is realised: given consistent valuations w_0 … w_{n-1} of `c` linked through the state pairing,
    some consistent valuation of the unrolled circuit has them as its per-step copies -/
theorem unroll_complete (c uc : Circuit) (n : Nat) (stateIO : List (Name × Name)) (pfx : String) (ord : Ord)
    (hord : OrdOK ord) (hc : Good c) (hp : Pairing c stateIO) (ioMap : List (Name × List Name))
    (h : Tx.unroll c n stateIO pfx ord = .ok (uc, ioMap))
    (w : Nat → Val) (hw : ∀ t, t < n → Consistent c (w t))
    (hlink : ∀ t, t + 1 < n → ∀ p ∈ stateIO, w (t + 1) p.2 = w t p.1) :
    ∃ v, Consistent uc v ∧ ∀ t, t < n → ∀ x, c.has x = true → stepVal v t x = w t x := by
  obtain ⟨_, hmem, hloop⟩ := Unroll.unroll_unfold h
  have C := Unroll.ctx_of hord hc.clean.toWF hp.valsIn (fun p hp' => (hmem p hp').1) hp.valsNodup
  have I := Unroll.loop C n _ hloop
  have hio : ∀ x ∈ ord c.io, x ∉ c.inputs → c.has x = true := by
    intro x hx hni
    rcases mem_union.1 ((hord c.io).mem_iff.1 hx) with h1 | h1
    · exact absurd h1 hni
    · exact mem_outputs_has h1
  obtain ⟨a, b⟩ := I.complete C hio w hw hlink
  exact ⟨_, a, b⟩

/-- **C09 (sequential_unroll)** reduces to `unroll` of the blackbox-stripped circuit with the flops' d/q pins as the
    state pairing; flop data outputs are outputs exactly when requested; a string initial value turns every step-0
    state input into that constant -/
theorem sequential_unroll_reduces (c : Circuit) (n : Nat) (dPort qPort : Name) (ignore : List Name) (afo : Bool)
    (initStr : Option String) (ru : Bool) (pfx : String) (ord : Ord) (uc : Circuit) (ioMap : List (Name × List Name))
    (h : Tx.sequentialUnroll c n dPort qPort ignore afo initStr [] ru pfx ord = .ok (uc, ioMap)) :
    ∃ cs uc0, Tx.unroll cs n (c.bbs.map (fun p => (p.1 ++ "_" ++ dPort, p.1 ++ "_" ++ qPort))) pfx ord = .ok (uc0, ioMap) ∧
      uc.edges = uc0.edges ∧ uc.nodeNames = uc0.nodeNames ∧
      (∀ p ∈ c.bbs, ∀ x ∈ (ioMap.lookup (p.1 ++ "_" ++ dPort)).getD [], uc.isOut x = afo) ∧
      (∀ s, initStr = some s → ∀ p ∈ c.bbs, uc.ty? (Tx.ioName ioMap (p.1 ++ "_" ++ qPort) 0) = some s) ∧
      (initStr = none → ∀ x, uc.ty? x = uc0.ty? x) := by
  obtain ⟨cs, r, uc1, hr, h1, h2, hm⟩ := Unroll.seq_unfold h
  have hm' : ioMap = r.2 := hm
  subst hm'
  have h2' : (match initStr with
      | some v => (c.bbs.map (fun p : Name × BBox => p.1)).foldlM (Unroll.tyStep r.2 qPort v) uc1
      | none => .ok uc1) = .ok uc := h2
  rw [List.map_map] at hr
  obtain ⟨a1, a2, a3, a4, _⟩ := Unroll.outPhase r.2 dPort afo _ _ _ h1
  refine ⟨cs, r.1, hr, ?_⟩
  cases initStr with
  | none =>
    injection h2' with h2'
    subst h2'
    exact ⟨a1, a2, fun p hp x hx => a4 p.1 (List.mem_map.2 ⟨p, hp, rfl⟩) x hx, fun s hs => (by cases hs),
      fun _ x => a3 x⟩
  | some v =>
    obtain ⟨b1, b2, b3, b4, _⟩ := Unroll.tyPhase r.2 qPort v _ _ _ h2'
    refine ⟨by rw [b1, a1], by rw [b2, a2], ?_, ?_, fun hh => by cases hh⟩
    · intro p hp x hx
      rw [b3]
      exact a4 p.1 (List.mem_map.2 ⟨p, hp, rfl⟩) x hx
    · intro s hs p hp
      injection hs with hs
      subst hs
      exact b4 p.1 (List.mem_map.2 ⟨p, hp, rfl⟩)

/-! ### sequential_unroll: cycle-accurate semantics -/

/-- the sequential circuits the statement ranges over: lint-clean, at least one flop, all instances of one blackbox type
    having the data pins, every instance with all its pin nodes (typed as pins), and every pin-typed node belonging to
    an instance.
    One field was ADDED because the theorems below are false without it (counterexample in
    `CG/Proofs/UnrollSeqSemCex.lean`):
    `outsOrdinary` — no pin node is marked as output (a pin has no entry in the io map, so `ioName ioMap o t` would be
      the empty name, which the unrolled circuit does not constrain).
    The former field `noClash` (no node of `c` called `inst_pin` for ANY pin) is gone: since the library fix K39
    `sequential_unroll` no longer deletes nodes named like *ignored* pins; what remains is the theorem hypothesis
    `hclash` below, which only speaks about the pins that are actually exposed (it depends on `ignore_pins`, so it
    cannot be a field here) -/
structure SeqGood (c : Circuit) (bb : BBox) (dPort qPort : Name) : Prop where
  clean : LintClean c
  nonempty : c.bbs ≠ []
  oneType : ∀ u ∈ c.bbs, u.2 = bb
  instNodup : (c.bbs.map (·.1)).Nodup
  dIn : dPort ∈ bb.ins
  qOut : qPort ∈ bb.outs
  pinsPresent : ∀ u ∈ c.bbs, (∀ g ∈ bb.ins, c.ty? (u.1 ++ "." ++ g) = some "bb_input") ∧
    (∀ g ∈ bb.outs, c.ty? (u.1 ++ "." ++ g) = some "bb_output")
  pinsOwned : ∀ x, (c.ty? x = some "bb_input" ∨ c.ty? x = some "bb_output") →
    ∃ u ∈ c.bbs, ∃ g ∈ bb.ins ++ bb.outs, x = u.1 ++ "." ++ g
  outsOrdinary : ∀ o ∈ c.outputs, C06.isPin c o = false

/-- glue: the helper lemmas of `CG/Proofs/UnrollSeqSem*.lean` are stated for mirrored copies of the vocabulary above -/
theorem SeqGood.toHelper {c : Circuit} {bb : BBox} {dPort qPort : Name} (hc : SeqGood c bb dPort qPort) :
    USS.SeqGood' c bb dPort qPort :=
  ⟨hc.clean, hc.oneType, hc.instNodup, hc.dIn, hc.qOut, hc.pinsPresent, hc.outsOrdinary⟩

/-- a run of the sequential circuit over `n` cycles: one consistent valuation of `c` per cycle (flop outputs are free
    within a cycle), each flop's q pin at cycle t+1 carrying the value its d pin had at cycle t -/
def SeqRun (c : Circuit) (dPort qPort : Name) (n : Nat) (w : Nat → Val) : Prop :=
  (∀ t, t < n → Consistent c (w t)) ∧
  (∀ t, t + 1 < n → ∀ u ∈ c.bbs, w (t + 1) (u.1 ++ "." ++ qPort) = w t (u.1 ++ "." ++ dPort))

/-- **C09 (sequential_unroll, soundness).** every consistent valuation of the unrolled circuit is a cycle-accurate run of
    the sequential circuit: there is a run `w` such that the io map names, for every original output `o` and cycle `t`, a
    node carrying `w t o`, the exposed flop data node of cycle `t` carries the d pin's value, and with a string initial
    value every flop starts at that value — for every choice of add_flop_outputs, ignore_pins, remove_unloaded and every
    set-iteration order.
    `hig` (ADDED): the data pins are not among the ignored pins; otherwise another pin whose exposed name happens to be
    `inst_d` is taken for the data pin (counterexample in `CG/Proofs/UnrollSeqSemCex.lean`).
    `hclash` (ADDED, weakened with the library fix K39): no node of `c` carries the exposed name `inst_pin` of a pin
    that is NOT ignored.  The non-data pins are deleted by those names after stripping, and the data pins are looked up
    by them.  For dot-free instance and pin names a clash makes `strip_blackboxes` itself fail (K32), but with an
    instance called `a.b` the pins are exposed as `a_b_pin` while `sequential_unroll` deletes / wires up the unrelated
    nodes `a.b_pin` (counterexample `Dot` in `CG/Proofs/UnrollSeqSemCex.lean`).  Nodes named like *ignored* pins
    (e.g. `f_clk` with `ignore_pins = ["clk"]`) are harmless now (regression example `Clk` there) -/
theorem sequential_unroll_sem (c : Circuit) (bb : BBox) (n : Nat) (dPort qPort : Name) (ignore : List Name) (afo : Bool)
    (initStr : Option String) (ru : Bool) (pfx : String) (ord : Ord) (hord : OrdOK ord)
    (hc : SeqGood c bb dPort qPort) (hig : dPort ∉ ignore ∧ qPort ∉ ignore)
    (hclash : ∀ u ∈ c.bbs, ∀ g ∈ bb.ins ++ bb.outs, g ∉ ignore → c.has (u.1 ++ "_" ++ g) = false)
    (hinit : ∀ s, initStr = some s → s = "0" ∨ s = "1")
    (uc : Circuit) (ioMap : List (Name × List Name))
    (h : Tx.sequentialUnroll c n dPort qPort ignore afo initStr [] ru pfx ord = .ok (uc, ioMap))
    (v : Val) (hv : Consistent uc v) :
    ∃ w, SeqRun c dPort qPort n w ∧
      (∀ o ∈ c.outputs, ∀ t, t < n → v (Tx.ioName ioMap o t) = w t o) ∧
      (∀ u ∈ c.bbs, ∀ t, t < n → v (Tx.ioName ioMap (u.1 ++ "_" ++ dPort) t) = w t (u.1 ++ "." ++ dPort)) ∧
      (∀ s, initStr = some s → ∀ u ∈ c.bbs, w 0 (u.1 ++ "." ++ qPort) = (s == "1")) :=
  USS.seq_sound c bb n dPort qPort ignore afo initStr ru pfx ord hord hc.toHelper hclash hig hinit uc ioMap h v hv

/-- **C09 (sequential_unroll, completeness).** conversely every run (starting from the given initial value when there is
    one) is realised by a consistent valuation of the unrolled circuit that shows it at the io map's nodes -/
theorem sequential_unroll_complete (c : Circuit) (bb : BBox) (n : Nat) (dPort qPort : Name) (ignore : List Name) (afo : Bool)
    (initStr : Option String) (ru : Bool) (pfx : String) (ord : Ord) (hord : OrdOK ord)
    (hc : SeqGood c bb dPort qPort) (hig : dPort ∉ ignore ∧ qPort ∉ ignore)
    (hclash : ∀ u ∈ c.bbs, ∀ g ∈ bb.ins ++ bb.outs, g ∉ ignore → c.has (u.1 ++ "_" ++ g) = false)
    (hinit : ∀ s, initStr = some s → s = "0" ∨ s = "1")
    (uc : Circuit) (ioMap : List (Name × List Name))
    (h : Tx.sequentialUnroll c n dPort qPort ignore afo initStr [] ru pfx ord = .ok (uc, ioMap))
    (w : Nat → Val) (hw : SeqRun c dPort qPort n w)
    (hw0 : ∀ s, initStr = some s → ∀ u ∈ c.bbs, w 0 (u.1 ++ "." ++ qPort) = (s == "1")) :
    ∃ v, Consistent uc v ∧
      (∀ o ∈ c.outputs, ∀ t, t < n → v (Tx.ioName ioMap o t) = w t o) ∧
      (∀ u ∈ c.bbs, ∀ t, t < n → v (Tx.ioName ioMap (u.1 ++ "_" ++ dPort) t) = w t (u.1 ++ "." ++ dPort)) :=
  USS.seq_complete c bb n dPort qPort ignore afo initStr ru pfx ord hord hc.toHelper hclash hig hinit uc ioMap h w hw hw0

/-- non-vacuity: a toggle flop (`q <- q xor en`), unrolled for two cycles from initial value 0 -/
def togSeq : Circuit :=
  { nodes := [("en", { ty := some "input", out := some false }), ("clk", { ty := some "input", out := some false }),
              ("f.clk", { ty := some "bb_input", out := some false }), ("f.d", { ty := some "bb_input", out := some false }),
              ("f.q", { ty := some "bb_output", out := some false }), ("q", { ty := some "buf", out := some true }),
              ("nx", { ty := some "xor", out := some false })],
    edges := [("clk", "f.clk"), ("f.q", "q"), ("q", "nx"), ("en", "nx"), ("nx", "f.d")],
    bbs := [("f", { name := "ff", ins := ["clk", "d"], outs := ["q"] })] }
example : (Tx.sequentialUnroll togSeq 2 "d" "q" ["clk"] false (some "0") [] true "cg_unroll" id).toOption.map
    (fun r => (r.1.nodes.length, r.1.inputs, r.1.outputs)) =
    some (18, ["en_cg_unroll_0", "en_cg_unroll_1"], ["q_cg_unroll_0", "q_cg_unroll_1"]) := by decide +kernel
example : SeqGood togSeq { name := "ff", ins := ["clk", "d"], outs := ["q"] } "d" "q" := by
  refine ⟨Limit.lintClean_of_checks togSeq ⟨by decide, by decide, by decide⟩ (by decide) (by decide) (by decide),
    by decide, by decide, by decide, by decide, by decide, by decide, ?_, by decide⟩
  intro x hx
  have hm : x ∈ togSeq.nodeNames := by
    rcases hx with hx | hx <;> exact (Circuit.has_iff_mem _ _).1 (Circuit.has_of_ty? hx)
  revert hx
  revert x
  decide
/-- the remaining side hypotheses of the two theorems hold for the example call (`ignore_pins = ["clk"]`) -/
example : ("d" ∉ ["clk"] ∧ "q" ∉ ["clk"]) ∧
    ∀ u ∈ togSeq.bbs, ∀ g ∈ ["clk", "d"] ++ ["q"], g ∉ ["clk"] → togSeq.has (u.1 ++ "_" ++ g) = false := by decide


/-! non-vacuity: a toggling flip-flop loop unrolled twice -/
def tog : Circuit :=
  { nodes := [("s", { ty := some "input", out := some false }), ("en", { ty := some "input", out := some false }),
              ("nx", { ty := some "xor", out := some true })],
    edges := [("s", "nx"), ("en", "nx")] }
example : (Tx.unroll tog 2 [("nx", "s")] "cg_unroll" id).toOption.map (fun r => r.1.nodes.length) = some 12 := by decide
example : Good tog ∧ Pairing tog [("nx", "s")] := by
  refine ⟨⟨Limit.lintClean_of_checks tog ⟨by decide, by decide, by decide⟩ (by decide) (by decide) (by decide), rfl⟩,
    ⟨by decide, by decide, by decide, by decide, by decide⟩⟩

/-! ### sequential_unroll with a per-flop initial-value dict -/

/-- a per-flop initial-value dict as `sequential_unroll(initial_values={inst: "0"/"1", …})` takes it: keys are distinct
    instance names of the circuit, values are constants -/
structure InitDict (c : Circuit) (d : List (Name × String)) : Prop where
  keys : ∀ kv ∈ d, ∃ u ∈ c.bbs, u.1 = kv.1
  keysNodup : (d.map (·.1)).Nodup
  vals : ∀ kv ∈ d, kv.2 = "0" ∨ kv.2 = "1"

/-- **C09 (sequential_unroll with a per-flop initial-value dict, soundness).** as `sequential_unroll_sem`, with the flops
    listed in the dict starting at their given values and the others free -/
theorem sequential_unroll_dict_sem (c : Circuit) (bb : BBox) (n : Nat) (dPort qPort : Name) (ignore : List Name) (afo : Bool)
    (initDict : List (Name × String)) (ru : Bool) (pfx : String) (ord : Ord) (hord : OrdOK ord)
    (hc : SeqGood c bb dPort qPort) (hig : dPort ∉ ignore ∧ qPort ∉ ignore)
    (hclash : ∀ u ∈ c.bbs, ∀ g ∈ bb.ins ++ bb.outs, g ∉ ignore → c.has (u.1 ++ "_" ++ g) = false)
    (hd : InitDict c initDict)
    (uc : Circuit) (ioMap : List (Name × List Name))
    (h : Tx.sequentialUnroll c n dPort qPort ignore afo none initDict ru pfx ord = .ok (uc, ioMap))
    (v : Val) (hv : Consistent uc v) :
    ∃ w, SeqRun c dPort qPort n w ∧
      (∀ o ∈ c.outputs, ∀ t, t < n → v (Tx.ioName ioMap o t) = w t o) ∧
      (∀ u ∈ c.bbs, ∀ t, t < n → v (Tx.ioName ioMap (u.1 ++ "_" ++ dPort) t) = w t (u.1 ++ "." ++ dPort)) ∧
      (∀ kv ∈ initDict, w 0 (kv.1 ++ "." ++ qPort) = (kv.2 == "1")) := by
  exact USD.dict_sound c bb n dPort qPort ignore afo initDict ru pfx ord hord hc.toHelper hclash hig hd.keys hd.keysNodup hd.vals
    uc ioMap h v hv

/-- **C09 (sequential_unroll with a per-flop initial-value dict, completeness).** every run that starts the listed flops at
    their given values is realised -/
theorem sequential_unroll_dict_complete (c : Circuit) (bb : BBox) (n : Nat) (dPort qPort : Name) (ignore : List Name) (afo : Bool)
    (initDict : List (Name × String)) (ru : Bool) (pfx : String) (ord : Ord) (hord : OrdOK ord)
    (hc : SeqGood c bb dPort qPort) (hig : dPort ∉ ignore ∧ qPort ∉ ignore)
    (hclash : ∀ u ∈ c.bbs, ∀ g ∈ bb.ins ++ bb.outs, g ∉ ignore → c.has (u.1 ++ "_" ++ g) = false)
    (hd : InitDict c initDict)
    (uc : Circuit) (ioMap : List (Name × List Name))
    (h : Tx.sequentialUnroll c n dPort qPort ignore afo none initDict ru pfx ord = .ok (uc, ioMap))
    (w : Nat → Val) (hw : SeqRun c dPort qPort n w)
    (hw0 : ∀ kv ∈ initDict, w 0 (kv.1 ++ "." ++ qPort) = (kv.2 == "1")) :
    ∃ v, Consistent uc v ∧
      (∀ o ∈ c.outputs, ∀ t, t < n → v (Tx.ioName ioMap o t) = w t o) ∧
      (∀ u ∈ c.bbs, ∀ t, t < n → v (Tx.ioName ioMap (u.1 ++ "_" ++ dPort) t) = w t (u.1 ++ "." ++ dPort)) := by
  exact USD.dict_complete c bb n dPort qPort ignore afo initDict ru pfx ord hord hc.toHelper hclash hig hd.keys hd.vals
    uc ioMap h w hw hw0

/-- the call succeeds for such a dict whenever it succeeds without initial values (the dict only retypes step-0 state inputs) -/
theorem sequential_unroll_dict_ok (c : Circuit) (bb : BBox) (n : Nat) (dPort qPort : Name) (ignore : List Name) (afo : Bool)
    (initDict : List (Name × String)) (ru : Bool) (pfx : String) (ord : Ord) (hord : OrdOK ord)
    (hc : SeqGood c bb dPort qPort) (hig : dPort ∉ ignore ∧ qPort ∉ ignore)
    (hclash : ∀ u ∈ c.bbs, ∀ g ∈ bb.ins ++ bb.outs, g ∉ ignore → c.has (u.1 ++ "_" ++ g) = false)
    (hd : InitDict c initDict) (hn : 1 ≤ n)
    (r0 : Circuit × List (Name × List Name))
    (h0 : Tx.sequentialUnroll c n dPort qPort ignore afo none [] ru pfx ord = .ok r0) :
    ∃ uc, Tx.sequentialUnroll c n dPort qPort ignore afo none initDict ru pfx ord = .ok (uc, r0.2) := by
  have _ := hn  -- (`n ≥ 1` already follows from `h0`; kept in the statement)
  exact USD.dict_succeeds c bb n dPort qPort ignore afo initDict ru pfx ord hord hc.toHelper hclash hig hd.keys hd.vals r0 h0


/-- non-vacuity: the toggle flop of `togSeq` with the dict `{f: "1"}` -/
example : InitDict togSeq [("f", "1")] := ⟨by decide, by decide, by decide⟩
example : (Tx.sequentialUnroll togSeq 2 "d" "q" ["clk"] false none [("f", "1")] true "cg_unroll" id).toOption.map
    (fun r => (r.1.nodes.length, r.1.inputs, r.1.ty? (Tx.ioName r.2 "f_q" 0))) =
    some (18, ["en_cg_unroll_0", "en_cg_unroll_1"], some "1") := by decide +kernel

end CG.C09
