/-
  C19 — transforms, queries and writers never modify or alias their argument.
  The theorem is about the ownership skeletons that `tools/extract_own.py` transliterates from the Python function
  bodies on every run (CG/GeneratedOwn.lean): a syntax-directed classification of each statement (alias / fresh copy /
  mutating call / library call / return), with all reasoning done here.  The classification tables of the translator
  are trusted and validated dynamically (deep snapshots and id()-sharing tests on the real objects): C19_partial.
-/
import CG.Own
import CG.OwnSem
import CG.GeneratedOwn
import CG.Proofs.OwnP
namespace CG.C19
open Own

/-- **C19 (soundness of the analysis).** for every function skeleton, every assumed callee-summary table, every entry
    state and every execution — normal return, early return or exception at any point —:
    if the analysis says "does not mutate", every cell reachable from the circuit parameters has its version unchanged;
    if it says "does not alias", a returned object shares no cell with the parameters -/
theorem summary_sound (s : Sums) (f : Fn) (st : CState) (hst : Entry f st) (o : Out) (h : Exec s f.body st o) :
    ((summarize s f).mutates = false → ∀ c ∈ paramCells f st, o.state.ver c = st.ver c) ∧
    ((summarize s f).aliases = false → ∀ cs st', o = .returned cs st' → ∀ c ∈ cs, c ∉ paramCells f st) := by
  have hp := summarize_post s f st hst o h
  cases o with
  | normal st1 =>
    refine ⟨fun hm => hp.2 hm, ?_⟩
    intro _ cs st' heq
    cases heq
  | returned cs1 st1 =>
    refine ⟨fun hm => hp.1 hm, ?_⟩
    intro hal cs st' heq
    cases heq
    exact hp.2 hal
  | raised st1 =>
    refine ⟨fun hm => hp hm, ?_⟩
    intro _ cs st' heq
    cases heq

/-- in particular a `wellOwned` function leaves its arguments exactly as they were, whether it returns or raises, and
    returns nothing that shares mutable state with them -/
theorem wellOwned_sound (s : Sums) (f : Fn) (hw : wellOwned s f = true) (st : CState) (hst : Entry f st) (o : Out)
    (h : Exec s f.body st o) :
    (∀ c ∈ paramCells f st, o.state.ver c = st.ver c) ∧
    (∀ cs st', o = .returned cs st' → ∀ c ∈ cs, c ∉ paramCells f st) := by
  have hs := summary_sound s f st hst o h
  unfold wellOwned at hw
  simp only [Bool.and_eq_true, Bool.not_eq_true'] at hw
  exact ⟨hs.1 hw.1, hs.2 hw.2⟩

/-- **C19 (the library).** every public function of tx, props, sat, io (writers), utils and every read-only Circuit
    method, as transliterated from the current sources, is well-owned — each analysed against the summaries of the
    functions it calls (dependency order, so no summary is assumed before it is established) -/
theorem all_public_wellOwned : allWellOwned GeneratedOwn.skeletons = true := by
  decide +kernel

theorem skeleton_count : GeneratedOwn.skeletons.length = 69 := by
  decide

/-- the summary table used for function number `i` consists of the summaries computed for the earlier functions -/
theorem summaries_prefix (fs : List Fn) (acc : Sums) :
    summaries fs acc = acc ++ (List.range fs.length).map (fun i =>
      ((fs.getD i default).name, summarize (summaries (fs.take i) acc) (fs.getD i default))) := by
  induction fs generalizing acc with
  | nil => simp [summaries]
  | cons f fs ih =>
    rw [summaries, ih, List.length_cons, List.range_succ_eq_map, List.map_cons, List.map_map,
      List.append_assoc]
    rfl

/-! non-vacuity / sensitivity: the analysis rejects the classic mistakes -/
/-- `copy()` that forgets to copy the registry -/
def badCopy : Fn := { name := "copy", params := ["self"], body := Stmt.ret (Rhs.build ["self"]) }
example : wellOwned [] badCopy = false := by decide
/-- a transform that edits its argument's graph in place (`g = c.graph` instead of `c.graph.copy()`) -/
def badStrip : Fn :=
  { name := "strip", params := ["c"],
    body := Stmt.seq (Stmt.assign "g" (Rhs.alias "c")) (Stmt.seq (Stmt.loop (Stmt.mutate "g")) (Stmt.ret (Rhs.build ["g"]))) }
example : wellOwned [] badStrip = false := by decide
/-- flow sensitivity: `subc = c` in one branch, a fresh sub-circuit mutated in the other (sensitization_transform) -/
def okBranch : Fn :=
  { name := "st", params := ["c"],
    body := Stmt.seq (Stmt.ite (Stmt.seq (Stmt.assign "subc" Rhs.fresh) (Stmt.loop (Stmt.mutate "subc"))) (Stmt.assign "subc" (Rhs.alias "c")))
              (Stmt.seq (Stmt.assign "m" (Rhs.call "miter" ["subc"])) (Stmt.seq (Stmt.mutate "m") (Stmt.ret (Rhs.alias "m")))) }
example : wellOwned [("miter", { mutates := false, aliases := false })] okBranch = true := by decide
example : wellOwned [("miter", { mutates := false, aliases := true })] okBranch = false := by decide

end CG.C19
