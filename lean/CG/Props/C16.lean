/-
  C16 — remove_unloaded deletes exactly the dead logic.
  Property theorems only; helper lemmas live in CG/Proofs/RemoveUnloaded.lean.
-/
import CG.Ops
import CG.Sem
import CG.Proofs.RemoveUnloaded
namespace CG.C16

/-- static tie: the type lists used by `remove_unloaded` are the ones these proofs are about -/
theorem tables_remove_unloaded :
    Generated.remove_unloaded_lists = some Expected.remove_unloaded_lists := by decide

def OrdOK (ord : Ord) : Prop := ∀ l, (ord l).Perm l

/-- directed reachability along wires (reflexive) -/
inductive Reach (c : Circuit) : Name → Name → Prop where
  | refl (a : Name) : Reach c a a
  | step {a b d : Name} : (a, b) ∈ c.edges → Reach c b d → Reach c a d

/-- an output or a blackbox input pin is reachable from `n` -/
def Live (c : Circuit) (n : Name) : Prop :=
  ∃ s, c.has s = true ∧ (c.isOut s = true ∨ c.ty? s = some "bb_input") ∧ Reach c n s

/-- node kinds the call may delete at all -/
def Removable (c : Circuit) (inputs : Bool) (n : Name) : Prop :=
  c.ty? n ≠ some "bb_input" ∧ (inputs = true ∨ (c.ty? n ≠ some "input" ∧ c.ty? n ≠ some "bb_output"))

/-- the hypotheses of the statement: an acyclic, legally wired circuit -/
structure Good (c : Circuit) : Prop where
  nodup : c.nodeNames.Nodup
  edgesNodup : c.edges.Nodup
  closed : ∀ e ∈ c.edges, c.has e.1 = true ∧ c.has e.2 = true
  acyclic : ∃ rank : Name → Nat, ∀ e ∈ c.edges, rank e.1 < rank e.2
  noFaninOnSources : ∀ e ∈ c.edges, c.ty? e.2 ≠ some "input" ∧ c.ty? e.2 ≠ some "bb_output"
  noBBInFanout : ∀ e ∈ c.edges, c.ty? e.1 ≠ some "bb_input"

/-- **C16.** For every set-iteration order the worklist terminates and deletes exactly the dead removable
    nodes; the returned list is exactly the deleted set; the survivors are untouched. -/
theorem remove_unloaded_exact (c : Circuit) (inputs : Bool) (ord : Ord) (hord : OrdOK ord) (hg : Good c) :
    ∃ c' removed, c.removeUnloaded inputs ord = some (c', removed) ∧ removed.Nodup ∧
      (∀ n, n ∈ removed ↔ (c.has n = true ∧ ¬ Live c n ∧ Removable c inputs n)) ∧
      c'.nodes = c.nodes.filter (fun p => !removed.contains p.1) ∧
      c'.edges = c.edges.filter (fun e => !removed.contains e.1 && !removed.contains e.2) ∧
      c'.bbs = c.bbs ∧ c'.name = c.name := by
  have hL : RU.IsLive c (Live c) := by
    intro n
    constructor
    · rintro ⟨s, hs, hsink, hr⟩
      cases hr with
      | refl => exact Or.inl ⟨hs, hsink⟩
      | step he hr' => exact Or.inr ⟨_, he, s, hs, hsink, hr'⟩
    · rintro (⟨hs, hsink⟩ | ⟨b, he, s, hs, hsink, hr⟩)
      · exact ⟨n, hs, hsink, Reach.refl n⟩
      · exact ⟨s, hs, hsink, Reach.step he hr⟩
  exact RU.exact_abs ⟨hg.1, hg.2, hg.3, hg.4, hg.5, hg.6⟩ inputs hL hord

/-- every remaining node keeps its type, output mark and fan-in -/
theorem survivors_untouched (c : Circuit) (inputs : Bool) (ord : Ord) (hord : OrdOK ord) (hg : Good c)
    (c' : Circuit) (removed : List Name) (h : c.removeUnloaded inputs ord = some (c', removed)) :
    ∀ n, c'.has n = true → c'.attr? n = c.attr? n ∧ c'.fanin n = c.fanin n := by
  have hg' : RU.Good c := ⟨hg.1, hg.2, hg.3, hg.4, hg.5, hg.6⟩
  have hL := RU.live_isLive c
  exact RU.survivors hg' hL (RU.post_of_eq hg' hL hord h)

/-- … so every consistent valuation of the original is one of the result (outputs keep their function) -/
theorem consistent_preserved (c : Circuit) (inputs : Bool) (ord : Ord) (hord : OrdOK ord) (hg : Good c)
    (c' : Circuit) (removed : List Name) (h : c.removeUnloaded inputs ord = some (c', removed))
    (v : Val) (hv : Consistent c v) : Consistent c' v := by
  have hg' : RU.Good c := ⟨hg.1, hg.2, hg.3, hg.4, hg.5, hg.6⟩
  have hL := RU.live_isLive c
  exact RU.consistent hg' hL (RU.post_of_eq hg' hL hord h) v hv

/-- with `inputs=False` no primary input and no blackbox pin is ever deleted, however it came to be unloaded -/
theorem inputs_false_keeps_inputs (c : Circuit) (ord : Ord) (hord : OrdOK ord) (hg : Good c)
    (c' : Circuit) (removed : List Name) (h : c.removeUnloaded false ord = some (c', removed)) :
    ∀ n ∈ removed, c.ty? n ≠ some "input" ∧ c.ty? n ≠ some "bb_output" ∧ c.ty? n ≠ some "bb_input" := by
  have hg' : RU.Good c := ⟨hg.1, hg.2, hg.3, hg.4, hg.5, hg.6⟩
  have hL := RU.live_isLive c
  intro n hn
  have hr := RU.removed_removable (RU.post_of_eq hg' hL hord h) n hn
  rcases hr.2 with h2 | h2
  · exact Bool.noConfusion h2
  · exact ⟨h2.1, h2.2, hr.1⟩

/-- idempotent: a second application deletes nothing -/
theorem idempotent (c : Circuit) (inputs : Bool) (ord : Ord) (hord : OrdOK ord) (hg : Good c)
    (c' : Circuit) (removed : List Name) (h : c.removeUnloaded inputs ord = some (c', removed)) :
    c'.removeUnloaded inputs ord = some (c', []) := by
  have hg' : RU.Good c := ⟨hg.1, hg.2, hg.3, hg.4, hg.5, hg.6⟩
  have hL := RU.live_isLive c
  exact RU.idem hg' hL (RU.post_of_eq hg' hL hord h) ord

/-- the deleted *set* does not depend on the iteration order (only the returned list's order does) -/
theorem order_irrelevant (c : Circuit) (inputs : Bool) (o1 o2 : Ord) (h1 : OrdOK o1) (h2 : OrdOK o2) (hg : Good c)
    (c1 c2 : Circuit) (r1 r2 : List Name)
    (e1 : c.removeUnloaded inputs o1 = some (c1, r1)) (e2 : c.removeUnloaded inputs o2 = some (c2, r2)) :
    r1.Perm r2 ∧ c1 = c2 := by
  have hg' : RU.Good c := ⟨hg.1, hg.2, hg.3, hg.4, hg.5, hg.6⟩
  have hL := RU.live_isLive c
  exact RU.order_irr (RU.post_of_eq hg' hL h1 e1) (RU.post_of_eq hg' hL h2 e2)

/-! non-vacuity: a concrete circuit with a dead chain, an input loaded only by dead logic and an unloaded input -/
def ex : Circuit :=
  { nodes := [("a", { ty := some "input", out := some false }), ("b", { ty := some "input", out := some false }),
              ("u", { ty := some "input", out := some false }),
              ("o", { ty := some "not", out := some true }), ("d1", { ty := some "not", out := some false }),
              ("d2", { ty := some "buf", out := some false })],
    edges := [("a", "o"), ("b", "d1"), ("d1", "d2")] }
example : (ex.removeUnloaded false id).map (·.2) = some ["d2", "d1"] := by decide
example : (ex.removeUnloaded true id).map (·.2) = some ["d2", "d1", "b", "u"] := by decide
example : Good ex := by
  refine ⟨by decide, by decide, by decide, ⟨fun n => if n = "o" ∨ n = "d1" then 1 else if n = "d2" then 2 else 0, by decide⟩,
    by decide, by decide⟩


end CG.C16
