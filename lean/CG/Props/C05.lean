/-
  C05 — fan-in / fan-out limiting preserves function.
  Property theorems only; helper lemmas live in CG/Proofs/Limit.lean.
-/
import CG.Tx
import CG.Spec
import CG.Proofs.Limit
import CG.Tx3
import CG.Props.C18
import CG.Proofs.InsReg
namespace CG.C05

/-- static tie: the gate map of `limit_fanin` extracted from tx.py is the one these proofs are about -/
theorem tables_gatemap : Generated.gatemap = some Expected.gatemap := by decide
theorem tables_supported : Generated.supported_types = some Expected.supported_types := by decide
theorem tables_add : Generated.add_lists = some Expected.add_lists := by decide
theorem tables_connect : Generated.connect_lists = some Expected.connect_lists := by decide

/-- the algebra behind one grouping step: for every multi-input gate type `t` with map entry `g`,
    combining two operands with a `g` gate first does not change the function — for every arity -/
theorem gatemap_assoc (t g : String) (h : (t, g) ∈ Expected.gatemap) (a b : Bool) (r : List Bool) :
    gateFn t (a :: b :: r) = (gateFn g [a, b]).bind (fun ab => gateFn t (ab :: r)) :=
  Limit.gatemap_assoc t g h a b r

/-- operand order (hash order) is irrelevant for every multi-input gate type -/
theorem gateFn_perm (t : String) (ht : t ∈ multiTypes) (l₁ l₂ : List Bool) (h : l₁.Perm l₂) :
    gateFn t l₁ = gateFn t l₂ :=
  -- holds for every gate type, `ht` is not needed
  have _ := ht
  Limit.gateFn_perm_any t h

/-- **C05 (limit_fanin).** for every lint-clean circuit, every k ≥ 2 and every set-iteration order the
    call succeeds, no node of the result has more than k fan-in, inputs/outputs/types/output marks of the
    original nodes are unchanged, and the result refines the original on every original node.
    ADDED HYPOTHESIS `hname` (see REPORT.md, counterexample `cexFanin` below): the new gates are named
    `f"{n}_limit_fanin_{i}"` and `add` rejects names starting with a digit, so a node that has to be split
    must not have a name starting with a digit. -/
theorem limit_fanin_spec (c : Circuit) (k : Nat) (hk : 2 ≤ k) (ord : Ord) (hord : OrdOK ord) (hc : LintClean c)
    (hname : ∀ n, k < (c.fanin n).length → Circuit.isDigit0 n = false) :
    ∃ c', Tx.limitFanin c k ord = .ok c' ∧
      (∀ n, (c'.fanin n).length ≤ k) ∧
      c'.inputs = c.inputs ∧ c'.outputs = c.outputs ∧
      (∀ n, c.has n = true → c'.attr? n = c.attr? n) ∧
      LintClean c' ∧ Refines c c' id :=
  Limit.limit_fanin_main c k hk ord hord hc hname

/-- **C05 (limit_fanout).** likewise no node of the result drives more than k loads.
    ADDED HYPOTHESIS `hname` (see REPORT.md, counterexample `cexFanout` below), as for `limit_fanin_spec`. -/
theorem limit_fanout_spec (c : Circuit) (k : Nat) (hk : 2 ≤ k) (ord : Ord) (hord : OrdOK ord) (hc : LintClean c)
    (hname : ∀ n, k < (c.fanout n).length → Circuit.isDigit0 n = false) :
    ∃ c', Tx.limitFanout c k ord = .ok c' ∧
      (∀ n, (c'.fanout n).length ≤ k) ∧
      c'.inputs = c.inputs ∧ c'.outputs = c.outputs ∧
      (∀ n, c.has n = true → c'.attr? n = c.attr? n) ∧
      LintClean c' ∧ Refines c c' id :=
  Limit.limit_fanout_main c k hk ord hord hc hname

/-- k < 2 is rejected with ValueError by both -/
theorem limit_rejects_small_k (c : Circuit) (k : Nat) (hk : k < 2) (ord : Ord) :
    Tx.limitFanin c k ord = .error .valueError ∧ Tx.limitFanout c k ord = .error .valueError :=
  Limit.limit_rejects_small_k c k hk ord

/-- the pre-fix table entry `xnor ↦ xnor` is wrong: the obligation `gatemap_assoc` fails for it (K2) -/
example : gateFn "xnor" [false, false, false] ≠
    (gateFn "xnor" [false, false]).bind (fun ab => gateFn "xnor" [ab, false]) := by decide

/-! ### insert_registers and acyclic_unroll of an acyclic circuit -/

/-- the flops inserted by the call (instances of the result that the argument did not have) behave as wires -/
def NewWired (c c' : Circuit) (v : Val) : Prop :=
  ∀ q ∈ c'.bbs, q ∉ c.bbs → v (q.1 ++ ".q") = v (q.1 ++ ".d")

/-- glue: `NewWired` is the predicate `InsReg.NewWired'` the helper files are stated with -/
theorem newWired_iff (c c' : Circuit) (v : Val) : NewWired c c' v ↔ InsReg.NewWired' c c' v := Iff.rfl

/-- **C05 (insert_registers).** the call only splices flip-flop blackboxes into existing wires: original nodes keep
    their types and output marks, the outputs are unchanged, the only new input is the clock, and replacing every
    inserted flop by a wire from its d pin to its q pin gives a circuit equivalent to the original — every consistent
    valuation of the result in which each new flop passes d to q restricts to a consistent valuation of the original,
    and every consistent valuation of the original extends to such a valuation; for every number of stages for which
    the call succeeds and every set-iteration order -/
theorem insert_registers_sem (c c' : Circuit) (k : Nat) (ord : Ord) (hord : OrdOK ord) (fuel : Nat)
    (hc : LintClean c) (hnobb : c.bbs = []) (h : Tx.insertRegisters c k ord fuel = .ok c') :
    (∀ n, c.has n = true → c'.attr? n = c.attr? n) ∧
    (∀ x, x ∈ c'.outputs ↔ x ∈ c.outputs) ∧
    (∀ x, x ∈ c'.inputs ↔ (x ∈ c.inputs ∨ (x = "clk" ∧ c.has "clk" = false))) ∧
    (∀ q ∈ c'.bbs, q.2 = { name := "ff", ins := ["clk", "d"], outs := ["q"] }) ∧
    (∀ v', Consistent c' v' → NewWired c c' v' → Consistent c v') ∧
    (∀ v, Consistent c v → ∃ v', Consistent c' v' ∧ NewWired c c' v' ∧ ∀ n, c.has n = true → v' n = v n) := by
  exact InsReg.insert_registers_main c c' k ord hord fuel hc hnobb h

/-- at least one register stage is really inserted when a stage boundary exists: a non-vacuity witness that the call
    succeeds and adds flops on a concrete three-level circuit -/
def exReg : Circuit :=
  { nodes := [("a", { ty := some "input", out := some false }), ("b", { ty := some "input", out := some false }),
              ("g", { ty := some "and", out := some false }), ("h", { ty := some "not", out := some false }),
              ("o", { ty := some "or", out := some true })],
    edges := [("a", "g"), ("b", "g"), ("g", "h"), ("h", "o"), ("a", "o")] }
example : (Tx.insertRegisters exReg 1 id 100).toOption.map (fun c' => (c'.bbs.map (·.1), c'.nodes.length)) =
    some (["ff_h"], 10) := by decide +kernel

/-- **C05 (acyclic_unroll of an acyclic circuit).** nothing is cut: the result has the same inputs and outputs and
    every output computes the same function of the inputs as before -/
theorem acyclic_unroll_of_acyclic (c a : Circuit) (ord ordF : Ord) (hord : OrdOK ord) (hordF : OrdOK ordF)
    (hc : C18.Good c) (hnox : ∀ p ∈ c.nodes, p.2.ty ≠ some "x") (hacyc : Acyclic c)
    (h : Tx.acyclicUnroll c ord ordF = .ok a) :
    (∀ x, x ∈ a.inputs ↔ x ∈ c.inputs) ∧ (∀ x, x ∈ a.outputs ↔ x ∈ c.outputs) ∧
    (∀ v w, Consistent c v → Consistent a w → (∀ i ∈ c.inputs, w i = v i) → ∀ o ∈ c.outputs, w o = v o) ∧
    (∀ v, Consistent c v → ∃ w, Consistent a w ∧ ∀ i ∈ c.inputs, w i = v i) := by
  have hfas : Tx.approxMinFas c = [] := InsReg.fas_nil_of_acyclic c hc.clean.toWF hacyc
  obtain ⟨_, _, houts, hins⟩ := C18.acyclic_unroll_shape c a ord ordF hord hordF hc h
  refine ⟨?_, houts, ?_, ?_⟩
  · intro x
    rw [hins x, hfas]
    simp
  · intro v w hv hw hin
    exact C18.stable_state_preserved c a ord ordF hord hordF hc hnox h v hv w hw hin
      (by rw [hfas]; intro f hf; cases hf)
  · intro v hv
    obtain ⟨w, hw, hin, _⟩ := C18.stable_state_realised c a ord ordF hord hordF hc h v hv
    exact ⟨w, hw, hin⟩

/-! non-vacuity: a lint-clean circuit with a 4-input xnor and a node driving 3 loads -/
def ex : Circuit :=
  { nodes := [("a", { ty := some "input", out := some false }), ("b", { ty := some "input", out := some false }),
              ("c", { ty := some "input", out := some false }), ("d", { ty := some "input", out := some false }),
              ("g", { ty := some "xnor", out := some true }), ("h", { ty := some "nand", out := some true }),
              ("i", { ty := some "not", out := some true })],
    edges := [("a", "g"), ("b", "g"), ("c", "g"), ("d", "g"), ("a", "h"), ("b", "h"), ("a", "i")] }
example : (Tx.limitFanin ex 2 id).toOption.map (fun c => c.nodes.length) = some 9 := by decide
example : (Tx.limitFanout ex 2 id).toOption.map (fun c => c.nodes.length) = some 8 := by decide
example : LintClean ex :=
  Limit.lintClean_of_checks ex ⟨by decide, by decide, by decide⟩ (by decide) (by decide) (by decide)
/-- the added name hypotheses hold for `ex`, so the two spec theorems apply to it -/
example : ∀ n, 2 < (ex.fanin n).length → Circuit.isDigit0 n = false := by
  intro n hn
  have hmem : n ∈ ex.nodeNames := (RU.has_iff ex n).mp (Limit.has_of_fanin_pos (by
    exact ⟨by decide, by decide, by decide⟩) (by omega))
  revert hn
  revert n
  decide
example : ∀ n, 2 < (ex.fanout n).length → Circuit.isDigit0 n = false := by
  intro n hn
  have hmem : n ∈ ex.nodeNames := (RU.has_iff ex n).mp (Limit.has_of_fanout_pos (by
    exact ⟨by decide, by decide, by decide⟩) (by omega))
  revert hn
  revert n
  decide

/-! the statements without `hname` are false for the model (and for circuit.py: `add` raises ValueError
    for a name starting with a digit): lint-clean circuits on which the calls fail -/
def cexFanin : Circuit :=
  { nodes := [("a", { ty := some "input", out := some false }), ("b", { ty := some "input", out := some false }),
              ("c", { ty := some "input", out := some false }), ("1g", { ty := some "and", out := some true })],
    edges := [("a", "1g"), ("b", "1g"), ("c", "1g")] }
example : LintClean cexFanin :=
  Limit.lintClean_of_checks cexFanin ⟨by decide, by decide, by decide⟩ (by decide) (by decide) (by decide)
example : (match Tx.limitFanin cexFanin 2 id with | .error .valueError => true | _ => false) = true := by decide
def cexFanout : Circuit :=
  { nodes := [("1a", { ty := some "input", out := some false }), ("b", { ty := some "buf", out := some true }),
              ("c", { ty := some "buf", out := some true }), ("g", { ty := some "buf", out := some true })],
    edges := [("1a", "b"), ("1a", "c"), ("1a", "g")] }
example : LintClean cexFanout :=
  Limit.lintClean_of_checks cexFanout ⟨by decide, by decide, by decide⟩ (by decide) (by decide) (by decide)
example : (match Tx.limitFanout cexFanout 2 id with | .error .valueError => true | _ => false) = true := by decide

end CG.C05
