/-
  C17 (super-circuit, continued) — the weaker freshness hypothesis `SuperNamesFree` does not suffice (counterexamples), and the
  hypotheses of `super_fill_equiv_fixed` are satisfiable (two closed instances).  Property theorems only.
-/
import CG.Props.C17Super
import CG.Proofs.SGSuperCex
import CG.Proofs.SGSuperEx
namespace CG.C17
open Supergates

/-- with `SuperNamesFree` in place of `SuperNamesOK` the statement is false: heads `a`, `a_b` with members `b_c`, `c` both give
    the spliced name `sg_a_b_c`, so the second `fill_blackbox` is rejected (counterexample A; B and C: a net named like a pin
    `sg_o.a`, an input whose name starts with a digit) -/
theorem super_fill_equiv_unfixed_false :
    ¬ ∀ (c : Circuit) (ord : Ord), OrdOK ord → LintClean c → c.bbs = [] → Acyclic c →
      (∀ n, 2 < (c.fanin n).length → Circuit.isDigit0 n = false) → (∀ n, c.ty? n ≠ some "bb_output") →
      c.outputs.length = 1 → ∀ c2 : Circuit, Tx.limitFanin c 2 ord = .ok c2 → SuperNamesFree c2 →
      (algo c2 (ord c2.outputs)).headsDistinct = true →
      ∃ s m full, runSuper c ord = .ok (s, m) ∧ fillAll s m ord = .ok full ∧ EquivIO c full :=
  SGSuperCex.super_fill_equiv_false

/-- non-vacuity: the reconvergent example `cR` and a three-supergate circuit satisfy `SuperNamesOK` -/
theorem superNamesOK_examples : SuperNamesOK cR ∧ SuperNamesOK SGSuperEx.cT := ⟨SGSuperEx.cR_namesOK, SGSuperEx.cT_namesOK⟩

end CG.C17
