/-
  CG.Basic — data model of a circuitgraph `Circuit` (networkx DiGraph + blackbox registry).

  Nodes and edges are kept in *insertion order* (what `for n in c`, `graph.edges`,
  `predecessors` iterate).  Everything that the Python code obtains as a `set` is enumerated
  through an explicit order function (`Ord`), so that theorems can quantify over all
  set-iteration orders.  No Mathlib import here: the driver executable links this file.
-/
namespace CG

abbrev Name := String

/-- Node attributes.  `none` = attribute missing on the networkx node (raw graphs). -/
structure Attr where
  ty  : Option String := none
  out : Option Bool := none
deriving DecidableEq, Repr, Inhabited

/-- A `BlackBox` type object: name, input pin set, output pin set (as duplicate-free lists). -/
structure BBox where
  name : String
  ins  : List Name
  outs : List Name
deriving DecidableEq, Repr, Inhabited

structure Circuit where
  name  : String := "circuit"
  nodes : List (Name × Attr) := []
  edges : List (Name × Name) := []
  bbs   : List (Name × BBox) := []
deriving DecidableEq, Repr, Inhabited

/-- Exception classes the Python code can leave with (plus `ok`). -/
inductive Outcome where
  | ok | valueError | keyError | indexError | notImplemented | nxError | typeError
  | fuel            -- model ran out of fuel: harness fault, never agreement
  | other (s : String)
deriving DecidableEq, Repr, Inhabited

def Outcome.toString : Outcome → String
  | .ok => "ok" | .valueError => "ValueError" | .keyError => "KeyError"
  | .indexError => "IndexError" | .notImplemented => "NotImplementedError"
  | .nxError => "NetworkXError" | .typeError => "TypeError" | .fuel => "FUEL"
  | .other s => "other:" ++ s

/-- A set-enumeration order: how a Python `set` with the given members is iterated. -/
abbrev Ord := List Name → List Name

namespace Circuit

def empty (name : String := "circuit") : Circuit := { name := name }

def nodeNames (c : Circuit) : List Name := c.nodes.map (·.1)

def has (c : Circuit) (n : Name) : Bool := c.nodes.any (·.1 == n)

def attr? (c : Circuit) (n : Name) : Option Attr := c.nodes.lookup n

/-- `c.type(n)` when it succeeds. -/
def ty? (c : Circuit) (n : Name) : Option String := (c.attr? n).bind (·.ty)

/-- `c.is_output(n)`: missing attribute counts as False. -/
def isOut (c : Circuit) (n : Name) : Bool :=
  match c.attr? n with
  | some a => a.out.getD false
  | none => false

/-- predecessors in adjacency order -/
def fanin (c : Circuit) (n : Name) : List Name :=
  (c.edges.filter (·.2 == n)).map (·.1)

def fanout (c : Circuit) (n : Name) : List Name :=
  (c.edges.filter (·.1 == n)).map (·.2)

def hasEdge (c : Circuit) (u v : Name) : Bool := c.edges.contains (u, v)

def filterType (c : Circuit) (ts : List String) : List Name :=
  (c.nodes.filter (fun p => match p.2.ty with | some t => ts.contains t | none => false)).map (·.1)

def inputs (c : Circuit) : List Name := c.filterType ["input"]

def outputs (c : Circuit) : List Name := (c.nodes.filter (fun p => p.2.out.getD false)).map (·.1)

/-- union of two duplicate-free lists, keeping first occurrences -/
def union (a b : List Name) : List Name := a ++ b.filter (fun x => !a.contains x)

def io (c : Circuit) : List Name := union c.inputs c.outputs

def startpointsAll (c : Circuit) : List Name := c.filterType ["input", "bb_output"]

def endpointsAll (c : Circuit) : List Name := union c.outputs (c.filterType ["bb_input"])

def bb? (c : Circuit) (inst : Name) : Option BBox := c.bbs.lookup inst

end Circuit

/-- duplicate-free insertion at the end -/
def insertNew {α} [BEq α] (l : List α) (x : α) : List α := if l.contains x then l else l ++ [x]

def dedup {α} [BEq α] : List α → List α
  | [] => []
  | x :: xs => x :: (dedup xs).filter (fun y => !(y == x))

end CG
