/-
  CG.SupergatesAlgo — the decomposition algorithm of `tx.supergates` as coded (after `limit_fanin(c, 2)`):
  per output cone a digraph `g` (every wire backwards; forwards unless it enters the cone's output), immediate
  dominators of `g` from the output, supergates grown along the dominator tree (a child with more than one child of
  its own starts a new supergate, single-child chains are absorbed), de-duplication by node set (last cone wins),
  minimal cover, and the dependency graph whose topological sort orders the result.

  `nx.immediate_dominators` is modelled from its *definition* (d strictly dominates x iff removing d disconnects x from
  the root; the immediate dominator is the strict dominator that all others dominate), not from networkx's
  Cooper–Harvey–Kennedy implementation: the result of that function is unique, so the two agree whenever networkx is
  correct (trusted, see DESIGN.md §2; compared per instance by the correspondence of C17).
  The iteration order of Python's `set` of Circuit objects (hashed by `id`) cannot be reproduced; it only influences
  (a) the order among independent supergates in the returned list and (b) which of two minimal supergates with the same
  head survives.  The model therefore returns the *set* of minimal supergates with their heads and the verdict of the
  cycle test on the dependency graph; the driver reports both and the harness compares accordingly.
-/
import CG.Tx
import CG.Query
import CG.Supergates
namespace CG
namespace Supergates
open Query

/-- nodes of the cone of `o`: `c.transitive_fanin(o) | {o}` -/
def coneOf (c2 : Circuit) (o : Name) : List Name := o :: ancestors c2 o

/-- successors of `x` in the digraph `g` of the cone with output `o` -/
def gSucc (c2 : Circuit) (cone : List Name) (o : Name) (x : Name) : List Name :=
  ((c2.fanin x).filter cone.contains) ++ ((c2.fanout x).filter (fun v => cone.contains v && v != o))

/-- nodes reachable from `root` in `g` without passing through `d` (`d` itself excluded) -/
def reachAvoid (succ : Name → List Name) (n : Nat) (root d : Name) : List Name :=
  if root == d then [] else
  closureGo (fun x => (succ x).filter (· != d)) (n + 1) [root] [root]

/-- strict dominators of `x` w.r.t. `root` -/
def sdoms (succ : Name → List Name) (cone : List Name) (root x : Name) : List Name :=
  cone.filter (fun d => d != x && !(reachAvoid succ cone.length root d).contains x)

/-- immediate dominator: the strict dominator with the most strict dominators of its own (the strict dominators of a
    node form a chain under dominance) -/
def idom (succ : Name → List Name) (cone : List Name) (root x : Name) : Option Name :=
  if x == root then none else
  (sdoms succ cone root x).foldl (fun best d =>
    match best with
    | none => some d
    | some b => if (sdoms succ cone root b).length < (sdoms succ cone root d).length then some d else some b) none

/-- dominator tree as a child table `v ↦ {k | idom k = v}` (the root is nobody's child) -/
def domChildren (c2 : Circuit) (o : Name) : List (Name × List Name) :=
  let cone := coneOf c2 o
  let succ := gSucc c2 cone o
  let idoms := cone.map (fun x => (x, idom succ cone o x))
  cone.map (fun v => (v, (idoms.filter (fun p => p.2 == some v)).map (·.1)))

def childrenOf (tbl : List (Name × List Name)) (v : Name) : List Name := (tbl.lookup v).getD []

/-- the inner `fanins` queue: absorb children; a child with several children goes to the frontier, a single grandchild
    is absorbed too -/
def growSG (tbl : List (Name × List Name)) : Nat → List Name → List Name → List Name → List Name × List Name
  | 0, _, sg, fr => (sg, fr)
  | _ + 1, [], sg, fr => (sg, fr)
  | f + 1, fi :: rest, sg, fr =>
    let sg' := insertNew sg fi
    let ch := childrenOf tbl fi
    if ch.length > 1 then growSG tbl f rest sg' (fr ++ [fi])
    else if ch.length == 1 then growSG tbl f (rest ++ ch) sg' fr
    else growSG tbl f rest sg' fr

/-- the outer `frontier` queue of one cone: (head, node set) per supergate -/
def coneSGs (tbl : List (Name × List Name)) : Nat → List Name → List (Name × List Name) → List (Name × List Name)
  | 0, _, acc => acc
  | _ + 1, [], acc => acc
  | f + 1, node :: rest, acc =>
    let r := growSG tbl (tbl.length + 1) (childrenOf tbl node) [node] []
    coneSGs tbl f (rest ++ r.2) (acc ++ [(node, r.1)])

/-- `subcircuit(c_output, supergate, modify_io=True)` followed by `set_output(head)`, where `c_output` marks only the
    cone output `o` as output -/
def sgCircuit (c2 : Circuit) (o head : Name) (S : List Name) : Circuit :=
  let edges := c2.edges.filter (fun e => S.contains e.1 && S.contains e.2)
  { name := "circuit",
    nodes := S.map (fun n =>
      let t := (c2.ty? n).getD ""
      let t' := if !(T.subcircuitL 1).contains t && !edges.any (·.2 == n) then "input" else t
      (n, { ty := some t', out := some (n == head || n == o || !edges.any (·.1 == n)) })),
    edges := edges }

/-- a found supergate: head, cone output it was (last) found under, node set -/
structure Found where
  head : Name
  cone : Name
  nodes : List Name
deriving Repr, Inhabited

/-- the dict keyed by `frozenset(supergate)`: a later cone replaces the entry with the same node set -/
def insertFound (acc : List Found) (f : Found) : List Found :=
  if acc.any (fun g => setEq g.nodes f.nodes) then acc.map (fun g => if setEq g.nodes f.nodes then f else g)
  else acc ++ [f]

def allFound (c2 : Circuit) (outs : List Name) : List Found :=
  outs.foldl (fun acc o =>
    let tbl := domChildren c2 o
    (coneSGs tbl (tbl.length + 1) [o] []).foldl (fun acc p => insertFound acc { head := p.1, cone := o, nodes := p.2 }) acc) []

/-- minimal cover: keep a supergate unless every one of its nodes is an internal node of another one -/
def minimalCover (c2 : Circuit) (fs : List Found) : List (Found × Circuit) :=
  let cs := fs.map (fun f => (f, sgCircuit c2 f.cone f.head f.nodes))
  cs.filter (fun p =>
    let others := (cs.filter (fun q => !setEq q.1.nodes p.1.nodes)).flatMap (fun q => internal q.2)
    p.2.nodeNames.any (fun n => !others.contains n))

/-- edges of the dependency graph on the heads: `other → this` when a non-primary input of `this` is internal to `other` -/
def depEdges (c2 : Circuit) (ms : List (Found × Circuit)) : List (Name × Name) :=
  ms.flatMap (fun p =>
    (p.2.inputs.filter (fun i => !c2.inputs.contains i)).flatMap (fun i =>
      (ms.filter (fun q => q.1.head != p.1.head && (internal q.2).contains i)).map (fun q => (q.1.head, p.1.head))))

/-- Kahn-style cycle test on a small edge list -/
def depCyclicGo (es : List (Name × Name)) : Nat → List Name → Bool
  | 0, ns => !ns.isEmpty
  | f + 1, ns =>
    let free := ns.filter (fun n => !es.any (fun e => e.2 == n && ns.contains e.1))
    if ns.isEmpty then false else if free.isEmpty then true else depCyclicGo es f (ns.filter (fun n => !free.contains n))

structure AlgoResult where
  sgs : List (Found × Circuit)
  /-- heads are pairwise distinct (otherwise which duplicate survives depends on `id` order) -/
  headsDistinct : Bool
  /-- the dependency graph has a cycle: `nx.topological_sort` raises NetworkXUnfeasible -/
  cyclic : Bool

/-- the algorithm on the fan-in-limited circuit; `outs` = `c.outputs()` in iteration order -/
def algo (c2 : Circuit) (outs : List Name) : AlgoResult :=
  let ms := minimalCover c2 (allFound c2 outs)
  let heads := ms.map (·.1.head)
  { sgs := ms, headsDistinct := (dedup heads).length == heads.length,
    cyclic := depCyclicGo (depEdges c2 ms) (heads.length + 1) (dedup heads) }

/-- `tx.supergates(c)` up to the order of the list: fan-in limiting, then the algorithm -/
def run (c : Circuit) (ord : Ord) : E AlgoResult :=
  if !c.bbs.isEmpty then .error .notImplemented else
  Tx.limitFanin c 2 ord >>= fun c2 => pure (algo c2 (ord c2.outputs))

end Supergates
end CG
