/-
  CG.Supergates — a decidable checker for the claims of C17 about the list returned by `tx.supergates`, evaluated by
  the driver on the implementation's actual output (per instance), given the fan-in-limited circuit `c2`.
  The soundness of the checker w.r.t. the graph-theoretic statement is a theorem (CG/Props/C17.lean).
-/
import CG.Query
namespace CG
namespace Supergates
open Query

def internal (sg : Circuit) : List Name := sg.nodeNames.filter (fun n => !sg.inputs.contains n)

def closedAnc (c : Circuit) (n : Name) : List Name := n :: ancestors c n

def disjointL (a b : List Name) : Bool := a.all (fun x => !b.contains x)

/-- every unordered pair of distinct list positions -/
def allPairs {α} (l : List α) (p : α → α → Bool) : Bool :=
  match l with
  | [] => true
  | x :: xs => xs.all (p x) && allPairs xs p

/-- per-supergate checks against the circuit -/
def sgOK (c2 : Circuit) (sg : Circuit) : Bool :=
  sg.outputs.length == 1 &&
  (internal sg).all (fun n => c2.has n && sg.ty? n == c2.ty? n && setEq (sg.fanin n) (c2.fanin n)) &&
  sg.inputs.all c2.has &&
  allPairs sg.inputs (fun a b => disjointL (closedAnc c2 a) (closedAnc c2 b))

/-- the list is in topological order: every input of a supergate that is not a primary input of the circuit is an
    internal node of an earlier supergate -/
def orderOK (c2 : Circuit) : List Name → List Circuit → Bool
  | _, [] => true
  | done, sg :: rest =>
    sg.inputs.all (fun i => c2.ty? i == some "input" || done.contains i) && orderOK c2 (done ++ internal sg) rest

/-- every gate in the cone of an output is internal to some supergate -/
def coverOK (c2 : Circuit) (sgs : List Circuit) : Bool :=
  let cone := dedup (c2.outputs.flatMap (closedAnc c2))
  (cone.filter (fun n => c2.ty? n != some "input")).all (fun n => sgs.any (fun sg => (internal sg).contains n))

def supergatesOK (c2 : Circuit) (sgs : List Circuit) : Bool :=
  sgs.all (sgOK c2) && orderOK c2 [] sgs && coverOK c2 sgs

/-- first failing clause, for diagnostics -/
def why (c2 : Circuit) (sgs : List Circuit) : String :=
  if !sgs.all (sgOK c2) then "a supergate is not a single-output induced sub-circuit with independent inputs"
  else if !orderOK c2 [] sgs then "the list is not topologically ordered"
  else if !coverOK c2 sgs then "a gate of the output cones is in no supergate" else ""

end Supergates
end CG
