/-
  CG.Verilog — the full Verilog reader (`parsing/verilog.lark` + `verilog.py` transformer) and the writer
  `io.circuit_to_verilog`, as coded.  lark's lexer and LALR(1) engine are modelled by a hand-written lexer and a
  precedence-climbing parser for the same grammar (tied to the real parser by differential testing); the
  transformer callbacks are replayed in reduction (post-) order.
-/
import CG.Tx
import CG.Regex
namespace CG
namespace Verilog

inductive Tok where
  | id (s : String)
  | kw (s : String)        -- module endmodule input output wire assign
  | const (s : String)     -- "0" "1" "x"
  | sym (s : String)
deriving Repr, Inhabited, DecidableEq

def keywords : List String := ["module", "endmodule", "input", "output", "wire", "assign"]
def isLetter (c : Char) : Bool := ('a' ≤ c && c ≤ 'z') || ('A' ≤ c && c ≤ 'Z')
def isDigit (c : Char) : Bool := '0' ≤ c && c ≤ '9'
def isWs (c : Char) : Bool := c == ' ' || c == '\t' || c == '\n' || c == '\r' || c == '\x0c'
/-- `[^\s]` of Python's `re` -/
def isReSpace (c : Char) : Bool := (Regex.CSet.mem { ranges := Regex.wsRanges } c)

def constToks : List (List Char × String) :=
  [("1'b0".toList, "0"), ("1'h0".toList, "0"), ("1'b1".toList, "1"), ("1'h1".toList, "1"),
   ("1'bx".toList, "x"), ("1'hx".toList, "x")]
def symToks : List String := ["~^", "^~", "(", ")", ",", ";", ".", "=", "?", ":", "|", "^", "&", "!", "~"]

def dropPrefix? (p l : List Char) : Option (List Char) :=
  match p, l with
  | [], rest => some rest
  | _ :: _, [] => none
  | a :: p', b :: l' => if a == b then dropPrefix? p' l' else none

/-- skip to the end of a `/* ... */` comment -/
def skipBlock : List Char → Option (List Char)
  | [] => none
  | '*' :: '/' :: rest => some rest
  | _ :: rest => skipBlock rest

def lexGo : Nat → List Char → List Tok → Option (List Tok)
  | 0, _, _ => none
  | _ + 1, [], acc => some acc.reverse
  | fuel + 1, c :: rest, acc =>
    if isWs c then lexGo fuel rest acc
    else if c == '/' then
      match rest with
      | '/' :: r =>
        -- COMMENT: "//" /[^\n]*/ NEWLINE  (the newline is required)
        let body := r.dropWhile (· != '\n')
        (match body with
         | '\n' :: r' => lexGo fuel r' acc
         | _ => none)
      | '*' :: r => (match skipBlock r with | some r' => lexGo fuel r' acc | none => none)
      | _ => none
    else if c == '\\' then
      let nm := rest.takeWhile (fun ch => !isReSpace ch)
      if nm.isEmpty then none else lexGo fuel (rest.drop nm.length) (Tok.id (String.ofList (c :: nm)) :: acc)
    else if isLetter c || c == '_' then
      let nm := (c :: rest).takeWhile (fun ch => isLetter ch || isDigit ch || ch == '_')
      let s := String.ofList nm
      lexGo fuel ((c :: rest).drop nm.length) ((if keywords.contains s then Tok.kw s else Tok.id s) :: acc)
    else
      match constToks.findSome? (fun p => (dropPrefix? p.1 (c :: rest)).map (fun r => (p.2, r))) with
      | some (v, r) => lexGo fuel r (Tok.const v :: acc)
      | none =>
        match symToks.findSome? (fun s => (dropPrefix? s.toList (c :: rest)).map (fun r => (s, r))) with
        | some (s, r) => lexGo fuel r (Tok.sym s :: acc)
        | none => none

def lex (s : String) : Option (List Tok) := lexGo (s.length + 1) s.toList []

/-! ### syntax tree -/

inductive Expr where
  | id (s : Name)
  | const (v : String)
  | not (e : Expr)
  | and (a b : Expr)
  | or (a b : Expr)
  | xor (a b : Expr)
  | xnor (a b : Expr)
  | mux (c a b : Expr)
deriving Repr, Inhabited, DecidableEq

inductive Conns where
  | positional (es : List Expr)
  | named (ps : List (Name × Option Expr))     -- `.p(e)`; `none` = `.p()` (K9 fix)
deriving Repr, Inhabited

inductive Item where
  | input (ns : List Name)
  | output (ns : List Name)
  | wire (ns : List Name)
  | assign (l : List (Name × Expr))
  | inst (modName : Name) (insts : List (Name × Conns))
deriving Repr, Inhabited

structure Module where
  name : Name
  ports : List Name
  items : List Item
deriving Repr, Inhabited

/-! ### parser (same grammar as verilog.lark; `none` = UnexpectedToken) -/

abbrev P (α : Type) := List Tok → Option (α × List Tok)

def expectSym (s : String) : P Unit
  | Tok.sym t :: rest => if t == s then some ((), rest) else none
  | _ => none

def ident : P Name
  | Tok.id s :: rest => some (s, rest)
  | _ => none

mutual
/-- primary: IDENTIFIER | constant | "(" or ")" -/
def pPrimary : Nat → P Expr
  | 0, _ => none
  | _ + 1, Tok.id s :: rest => some (Expr.id s, rest)
  | _ + 1, Tok.const v :: rest => some (Expr.const v, rest)
  | fuel + 1, Tok.sym "(" :: rest =>
    match pOr fuel rest with
    | some (e, r1) => (match expectSym ")" r1 with | some (_, r2) => some (e, r2) | none => none)
    | none => none
  | _ + 1, _ => none

/-- unary: primary | ("!"|"~") primary -/
def pUnary : Nat → P Expr
  | 0, _ => none
  | fuel + 1, Tok.sym "!" :: rest => (pPrimary fuel rest).map (fun r => (Expr.not r.1, r.2))
  | fuel + 1, Tok.sym "~" :: rest => (pPrimary fuel rest).map (fun r => (Expr.not r.1, r.2))
  | fuel + 1, toks => pPrimary fuel toks

def pAndTail : Nat → Expr → P Expr
  | 0, _, _ => none
  | fuel + 1, lhs, Tok.sym "&" :: rest =>
    match pUnary fuel rest with
    | some (r, rest') => pAndTail fuel (Expr.and lhs r) rest'
    | none => none
  | _ + 1, lhs, toks => some (lhs, toks)

def pAnd : Nat → P Expr
  | 0, _ => none
  | fuel + 1, toks => match pUnary fuel toks with | some (l, r) => pAndTail fuel l r | none => none

def pXorTail : Nat → Expr → P Expr
  | 0, _, _ => none
  | fuel + 1, lhs, Tok.sym "^" :: rest =>
    match pAnd fuel rest with | some (r, rest') => pXorTail fuel (Expr.xor lhs r) rest' | none => none
  | fuel + 1, lhs, Tok.sym "~^" :: rest =>
    match pAnd fuel rest with | some (r, rest') => pXorTail fuel (Expr.xnor lhs r) rest' | none => none
  | fuel + 1, lhs, Tok.sym "^~" :: rest =>
    match pAnd fuel rest with | some (r, rest') => pXorTail fuel (Expr.xnor lhs r) rest' | none => none
  | _ + 1, lhs, toks => some (lhs, toks)

def pXor : Nat → P Expr
  | 0, _ => none
  | fuel + 1, toks => match pAnd fuel toks with | some (l, r) => pXorTail fuel l r | none => none

def pOrTail : Nat → Expr → P Expr
  | 0, _, _ => none
  | fuel + 1, lhs, Tok.sym "|" :: rest =>
    match pXor fuel rest with | some (r, rest') => pOrTail fuel (Expr.or lhs r) rest' | none => none
  | _ + 1, lhs, toks => some (lhs, toks)

def pOr : Nat → P Expr
  | 0, _ => none
  | fuel + 1, toks => match pXor fuel toks with | some (l, r) => pOrTail fuel l r | none => none
end

/-- fuel that always suffices: every recursive call either consumes a token or descends one of at most eight
    precedence levels -/
def exprFuel (toks : List Tok) : Nat := 10 * toks.length + 10

/-- expression: condition;  condition: or | or "?" or ":" or -/
def pExpr : P Expr := fun toks => do
  let (c, r) ← pOr (exprFuel toks) toks
  match r with
  | Tok.sym "?" :: r1 =>
    let (a, r2) ← pOr (exprFuel r1) r1
    let (_, r3) ← expectSym ":" r2
    let (b, r4) ← pOr (exprFuel r3) r3
    pure (Expr.mux c a b, r4)
  | _ => pure (c, r)

/-- `p (sep p)*` -/
def sepByGo {α} (p : P α) (sep : String) : Nat → P (List α)
  | 0, _ => none
  | fuel + 1, toks =>
    match p toks with
    | none => none
    | some (x, r) =>
      match r with
      | Tok.sym s :: r1 =>
        if s == sep then (match sepByGo p sep fuel r1 with | some (xs, r2) => some (x :: xs, r2) | none => none)
        else some ([x], r)
      | _ => some ([x], r)

def sepBy {α} (p : P α) (sep : String) : P (List α) := fun toks => sepByGo p sep (toks.length + 1) toks

def pNamedConn : P (Name × Option Expr) := fun toks => do
  let (_, r0) ← expectSym "." toks
  let (p, r1) ← ident r0
  let (_, r2) ← expectSym "(" r1
  match r2 with
  | Tok.sym ")" :: r3 => pure ((p, none), r3)
  | _ =>
    let (e, r3) ← pExpr r2
    let (_, r4) ← expectSym ")" r3
    pure ((p, some e), r4)

def pInstance : P (Name × Conns) := fun toks => do
  let (nm, r0) ← ident toks
  let (_, r1) ← expectSym "(" r0
  match r1 with
  | Tok.sym "." :: _ =>
    let (ps, r2) ← sepBy pNamedConn "," r1
    let (_, r3) ← expectSym ")" r2
    pure ((nm, Conns.named ps), r3)
  | _ =>
    let (es, r2) ← sepBy pExpr "," r1
    let (_, r3) ← expectSym ")" r2
    pure ((nm, Conns.positional es), r3)

def pAssignment : P (Name × Expr) := fun toks => do
  let (l, r0) ← ident toks
  let (_, r1) ← expectSym "=" r0
  let (e, r2) ← pExpr r1
  pure ((l, e), r2)

def pItem : P Item
  | Tok.kw "input" :: rest => do
    let (ns, r) ← sepBy ident "," rest; let (_, r') ← expectSym ";" r; pure (Item.input ns, r')
  | Tok.kw "output" :: rest => do
    let (ns, r) ← sepBy ident "," rest; let (_, r') ← expectSym ";" r; pure (Item.output ns, r')
  | Tok.kw "wire" :: rest => do
    let (ns, r) ← sepBy ident "," rest; let (_, r') ← expectSym ";" r; pure (Item.wire ns, r')
  | Tok.kw "assign" :: rest => do
    let (l, r) ← sepBy pAssignment "," rest; let (_, r') ← expectSym ";" r; pure (Item.assign l, r')
  | Tok.id m :: rest => do
    let (is, r) ← sepBy pInstance "," rest; let (_, r') ← expectSym ";" r; pure (Item.inst m is, r')
  | _ => none

def pItemsGo : Nat → List Item → P (List Item)
  | 0, _, _ => none
  | _ + 1, acc, Tok.kw "endmodule" :: rest => some (acc.reverse, rest)
  | fuel + 1, acc, toks => match pItem toks with | some (it, r) => pItemsGo fuel (it :: acc) r | none => none

def pItems (acc : List Item) : P (List Item) := fun toks => pItemsGo (toks.length + 1) acc toks

def pModule : P Module
  | Tok.kw "module" :: rest => do
    let (nm, r0) ← ident rest
    let (ports, r1) ← (match r0 with
      | Tok.sym "(" :: r => do
        let (ps, r') ← sepBy ident "," r
        let (_, r'') ← expectSym ")" r'
        pure (ps, r'')
      | _ => pure ([], r0))
    let (_, r2) ← expectSym ";" r1
    let (items, r3) ← pItems [] r2
    pure ({ name := nm, ports := ports, items := items }, r3)
  | _ => none

/-- `start: description*` — the library requires exactly one module (`[c] = parser.parse(...)`) -/
def parseModule (toks : List Tok) : Option Module :=
  match pModule toks with
  | some (m, []) => some m
  | _ => none

/-! ### transformer -/

structure TState where
  c : Circuit
  gateExprs : List Name := []
deriving Inhabited

def addNode (st : TState) (n ty : String) (fanin : List Name) (uid : Bool) : E (TState × Name) :=
  addE st.c { n := n, ty := ty, fanin := fanin, uid := uid, addConnected := true, allowRedef := true } >>= fun r =>
  pure ({ st with c := r.1 }, r.2)

def gate (st : TState) (n ty : String) (fanin : List Name) : E (TState × Name) :=
  addNode st n ty fanin true >>= fun r => pure ({ r.1 with gateExprs := insertNew r.1.gateExprs r.2 }, r.2)

/-- evaluate an expression: the callbacks in reduction order; returns the net name the expression denotes -/
def evalExpr (st : TState) : Expr → E (TState × Name)
  | .id s => pure (st, s)
  | .const v => pure (st, "tie_" ++ v)
  | .not e => evalExpr st e >>= fun r => gate r.1 ("not_" ++ r.2) "not" [r.2]
  | .and a b => evalExpr st a >>= fun ra => evalExpr ra.1 b >>= fun rb =>
      gate rb.1 ("and_" ++ ra.2 ++ "_" ++ rb.2) "and" [ra.2, rb.2]
  | .or a b => evalExpr st a >>= fun ra => evalExpr ra.1 b >>= fun rb =>
      gate rb.1 ("or_" ++ ra.2 ++ "_" ++ rb.2) "or" [ra.2, rb.2]
  | .xor a b => evalExpr st a >>= fun ra => evalExpr ra.1 b >>= fun rb =>
      if ra.2 == rb.2 then pure (rb.1, "tie_0") else      -- a ^ a (K27 fix)
      gate rb.1 ("xor_" ++ ra.2 ++ "_" ++ rb.2) "xor" [ra.2, rb.2]
  | .xnor a b => evalExpr st a >>= fun ra => evalExpr ra.1 b >>= fun rb =>
      if ra.2 == rb.2 then pure (rb.1, "tie_1") else
      gate rb.1 ("xnor_" ++ ra.2 ++ "_" ++ rb.2) "xnor" [ra.2, rb.2]
  | .mux c a b => evalExpr st c >>= fun rc => evalExpr rc.1 a >>= fun ra => evalExpr ra.1 b >>= fun rb =>
      let io := rc.2 ++ "_" ++ ra.2 ++ "_" ++ rb.2
      addNode rb.1 ("mux_n_" ++ io) "not" [rc.2] true >>= fun rn =>
      addNode rn.1 ("mux_a0_" ++ io) "and" [rn.2, rb.2] true >>= fun r0 =>
      addNode r0.1 ("mux_a1_" ++ io) "and" [rc.2, ra.2] true >>= fun r1 =>
      gate r1.1 ("mux_o_" ++ io) "or" [r0.2, r1.2]

def evalExprs (st : TState) : List Expr → E (TState × List Name)
  | [] => pure (st, [])
  | e :: es => evalExpr st e >>= fun r => evalExprs r.1 es >>= fun rs => pure (rs.1, r.2 :: rs.2)

def vpe : Outcome := .other "VerilogParsingError"

def doAssign (st : TState) (la : Name × Expr) : E TState :=
  evalExpr st la.2 >>= fun r =>
  if la.1 == "tie_0" || la.1 == "tie_1" || la.1 == "tie_x" then pure r.1
  else if r.1.gateExprs.contains r.2 then
    pure { c := r.1.c.relabel [(r.2, la.1)], gateExprs := r.1.gateExprs.filter (· != r.2) }   -- discard (K7 fix)
  else addNode r.1 la.1 "buf" [r.2] false >>= fun r2 => pure r2.1

/-- a gate's fan-in is a set: in a parity gate an operand given an even number of times cancels (fix K30); if nothing
    is left the gate reads the constant 0 -/
def parityFanin (ty : String) (fi : List Name) : List Name :=
  if (ty == "xor" || ty == "xnor") && (dedup fi).length < fi.length then
    let r := (dedup fi).filter (fun p => fi.count p % 2 == 1)
    if r.isEmpty then ["tie_0"] else r
  else fi

def doInstance (bbs : List BBox) (ord : Ord) (modName : Name) (st : TState) (inst : Name × Conns) : E TState :=
  if T.primitive.contains modName then
    match inst.2 with
    | .named ps =>
      -- the connection expressions were already evaluated when the error is raised
      evalExprs st (ps.filterMap (·.2)) >>= fun _ => .error vpe
    | .positional es =>
      evalExprs st es >>= fun r =>
      match r.2 with
      | [] => .error .indexError
      | o :: fi => addNode r.1 o modName (parityFanin modName fi) false >>= fun r2 => pure r2.1
  else
    -- connection expressions are evaluated before the instantiation callback looks the blackbox up
    (match inst.2 with
     | .named ps => evalExprs st (ps.filterMap (·.2)) >>= fun r =>
        pure (r.1, some ((ps.filter (·.2.isSome)).map (·.1) |>.zip r.2))
     | .positional es => evalExprs st es >>= fun r => pure (r.1, none)) >>= fun r =>
    match bbs.find? (fun b => b.name == modName) with
    | none => .error vpe
    | some bb =>
      match r.2 with
      | none => .error vpe
      | some conns0 =>
        -- a later duplicate of a pin name overrides the earlier one (dict.update), keeping the first position
        let conns := conns0.foldl (fun acc p =>
          if (acc.lookup p.1).isSome then acc.map (fun q => if q.1 == p.1 then p else q) else acc ++ [p]) []
        (ord bb.outs).foldlM (fun st' o =>
          match conns.lookup o with
          | some net => addNode st' net "buf" [] false >>= fun x => pure x.1
          | none => pure st') r.1 >>= fun st1 =>
        conns.foldlM (fun (c : Circuit) p => if c.has p.2 then pure c else Tx.addC c { n := p.2, ty := "buf" }) st1.c >>= fun c1 =>
        liftO (c1.addBlackbox bb inst.1 (conns.map (fun p => (p.1, if p.2.isEmpty then [] else [p.2]))) ord) >>= fun c2 =>
        pure { st1 with c := c2 }

structure Decls where
  io : List Name := []
  inputs : List Name := []
  outputs : List Name := []
deriving Inhabited

def doItem (bbs : List BBox) (ord : Ord) (s : TState × Decls) : Item → E (TState × Decls)
  | .input ns =>
    ns.foldlM (fun st n => addNode st n "input" [] false >>= fun r => pure r.1) s.1 >>= fun st =>
    pure (st, { s.2 with inputs := s.2.inputs ++ ns })
  | .output ns => pure (s.1, { s.2 with outputs := s.2.outputs ++ ns })
  | .wire _ => pure s
  | .assign l => l.foldlM doAssign s.1 >>= fun st => pure (st, s.2)
  | .inst m is => is.foldlM (doInstance bbs ord m) s.1 >>= fun st => pure (st, s.2)

/-- the whole transformer run on one module -/
def transform (m : Module) (bbs : List BBox) (ord : Ord) : E Circuit :=
  Tx.addC {} { n := "tie_0", ty := "0" } >>= fun c0 =>
  Tx.addC c0 { n := "tie_1", ty := "1" } >>= fun c1 =>
  Tx.addC c1 { n := "tie_x", ty := "x" } >>= fun c2 =>
  m.items.foldlM (doItem bbs ord) ({ c := c2 }, { io := m.ports }) >>= fun s =>
  let d := s.2
  if d.inputs.any (fun i => !d.io.contains i) then .error vpe else
  if d.outputs.any (fun o => !d.io.contains o) then .error vpe else
  if d.io.any (fun v => !d.inputs.contains v && !d.outputs.contains v) then .error vpe else
  let c3 : Circuit := { s.1.c with name := m.name }
  d.outputs.foldlM (fun c o => liftO (c.setOutput [o] true)) c3 >>= fun c4 =>
  let dropTie := fun (c : Circuit) (t : Name) => if (c.fanout t).isEmpty then c.remove [t] else c
  pure (dropTie (dropTie (dropTie c4 "tie_0") "tie_1") "tie_x")

/-- `parse_verilog_netlist(module_text, blackboxes)` -/
def parseNetlist (text : String) (bbs : List BBox) (ord : Ord) : E Circuit :=
  match lex text with
  | none => .error (.other "UnexpectedCharacters")
  | some toks =>
    match parseModule toks with
    | none => .error (.other "UnexpectedToken")
    | some m => transform m bbs ord

/-- `io.verilog_to_circuit(netlist, name, blackboxes=...)` (fast=False, infer_module_name=False):
    cut the module out with the extracted regular expression, then parse it -/
def moduleRegex (name : String) : String × Bool :=
  match Generated.regex_module with
  | some ((_, p, d) :: _) => (p.replace "NAME" name, d)
  | _ => ("(module\\s+" ++ name ++ "\\s*\\(.*?\\);(.*?)\\bendmodule\\b)", true)

def read (text name : String) (bbs : List BBox) (ord : Ord) : E Circuit :=
  match Regex.search (moduleRegex name).1 text (moduleRegex name).2 with
  | none => .error (.other "regex")
  | some none => .error .valueError
  | some (some mt) => parseNetlist (mt.groups.headD none |>.getD "") bbs ord

/-! ### writer -/

def gateTypes : List String := ["xor", "xnor", "buf", "not", "nor", "or", "and", "nand"]

/-- what the writer emits for one module, as a syntax tree: ports, declarations, then statements in emission order -/
structure WModule where
  name : Name
  inputs : List Name
  outputs : List Name
  wires : List Name
  stmts : List Item            -- blackbox instances, gate instances / assigns, in emission order
  parens : List Bool := []     -- per statement: the writer parenthesises the negated body (`~(a)` of a 1-input nand/nor/xnor)
deriving Repr, Inhabited

/-- left-associated chain `a op b op c` as the parser reads it back -/
def chain (op : Expr → Expr → Expr) : List Name → Expr
  | [] => Expr.id ""
  | x :: xs => xs.foldl (fun acc y => op acc (Expr.id y)) (Expr.id x)

/-- `io.circuit_to_verilog(c, behavioral)` up to rendering: the statements it emits -/
def toWModule (c0 : Circuit) (behavioral : Bool) (ord : Ord) : E WModule :=
  -- private copy; escaped identifiers get a trailing blank
  -- blackbox pin nodes keep their names even when the instance name is an escaped identifier (fix K37)
  let c1 := (ord c0.nodeNames).foldl (fun c n =>
    if n.startsWith "\\" && !(c.ty? n == some "bb_input" || c.ty? n == some "bb_output") then c.relabelOne n (n ++ " ") else c) c0
  (if c1.nodes.any (fun p => p.2.ty.isNone) then .error .keyError else pure ()) >>= fun _ =>
  let inputs := ord c1.inputs
  let outputs := ord c1.outputs
  -- blackboxes
  c1.bbs.foldlM (fun (s : Circuit × List Item) p =>
    let inst := p.1
    let bb := p.2
    (ord bb.ins).foldlM (fun (io : List (Name × Option Expr)) n =>
        if !s.1.has (inst ++ "." ++ n) then .error .nxError else
        match ord (s.1.fanin (inst ++ "." ++ n)) with
        | d :: _ => pure (io ++ [(n, some (Expr.id d))])
        | [] => pure (io ++ [(n, none)])) [] >>= fun io1 =>
    (ord bb.outs).foldlM (fun (r : Circuit × List (Name × Option Expr)) n =>
        if !r.1.has (inst ++ "." ++ n) then .error .nxError else
        match ord (r.1.fanout (inst ++ "." ++ n)) with
        | d :: _ => pure (r.1.disconnect [inst ++ "." ++ n] [d], r.2 ++ [(n, some (Expr.id d))])
        | [] => pure (r.1, r.2 ++ [(n, none)])) (s.1, io1) >>= fun r =>
    pure (r.1, s.2 ++ [Item.inst bb.name [(inst, Conns.named r.2)]])) (c1, []) >>= fun s =>
  let c2 := s.1
  -- gates
  (ord c2.nodeNames).foldlM (fun (st : List Item × List Name × List Bool) n =>   -- (statements, wires, paren flags)
    match c2.ty? n with
    | none => .error .keyError
    | some t =>
      if gateTypes.contains t then
        let fanin := ord (c2.fanin n)
        let wires := st.2.1 ++ [n]
        if fanin.isEmpty then pure (st.1, wires, st.2.2) else
        if behavioral then
          if t == "buf" then pure (st.1 ++ [Item.assign [(n, Expr.id (fanin.headD ""))]], wires, st.2.2 ++ [false])
          else if t == "not" then pure (st.1 ++ [Item.assign [(n, Expr.not (Expr.id (fanin.headD "")))]], wires, st.2.2 ++ [false])
          else
            let body := if t == "xor" || t == "xnor" then chain Expr.xor fanin
                        else if t == "and" || t == "nand" then chain Expr.and fanin else chain Expr.or fanin
            if t == "xnor" || t == "nor" || t == "nand" then pure (st.1 ++ [Item.assign [(n, Expr.not body)]], wires, st.2.2 ++ [true])
            else pure (st.1 ++ [Item.assign [(n, body)]], wires, st.2.2 ++ [false])
        else
          match c2.uid ("g_" ++ toString st.1.length) with
          | none => .error .fuel
          | some g => pure (st.1 ++ [Item.inst t [(g, Conns.positional ((n :: fanin).map Expr.id))]], wires, st.2.2 ++ [false])
      else if t == "0" || t == "1" || t == "x" then pure (st.1 ++ [Item.assign [(n, Expr.const t)]], st.2.1 ++ [n], st.2.2 ++ [false])
      else if t == "input" || t == "bb_input" || t == "bb_output" then pure st
      else .error .valueError) (s.2, [], s.2.map (fun _ => false)) >>= fun st =>
  pure { name := c2.name, inputs := inputs, outputs := outputs, wires := st.2.1, stmts := st.1, parens := st.2.2 }

/-- text of an expression exactly as the writer formats it (only the shapes `toWModule` produces) -/
def renderExpr : Expr → String
  | .id s => s
  | .const v => "1'b" ++ v
  | .not (.id s) => "~" ++ s
  | .not e => "~(" ++ renderExpr e ++ ")"
  | .and a b => renderExpr a ++ " & " ++ renderExpr b
  | .or a b => renderExpr a ++ " | " ++ renderExpr b
  | .xor a b => renderExpr a ++ " ^ " ++ renderExpr b
  | .xnor a b => renderExpr a ++ " ~^ " ++ renderExpr b
  | .mux c a b => renderExpr c ++ " ? " ++ renderExpr a ++ " : " ++ renderExpr b

def renderStmt (paren : Bool) : Item → String
  | .assign ((n, .not e) :: _) =>
    if paren then "assign " ++ n ++ " = ~(" ++ renderExpr e ++ ")" else "assign " ++ n ++ " = " ++ renderExpr (.not e)
  | .assign ((n, e) :: _) => "assign " ++ n ++ " = " ++ renderExpr e
  | .inst m ((g, Conns.positional es) :: _) => m ++ " " ++ g ++ "(" ++ ", ".intercalate (es.map renderExpr) ++ ")"
  | .inst m ((i, Conns.named ps) :: _) =>
    m ++ " " ++ i ++ " (" ++ ", ".intercalate (ps.map (fun p => "." ++ p.1 ++ "(" ++ (match p.2 with | some e => renderExpr e | none => "") ++ ")")) ++ ")"
  | _ => ""

def render (m : WModule) : String :=
  "module " ++ m.name ++ " (" ++ ", ".intercalate (m.inputs ++ m.outputs) ++ ");\n" ++
    String.join (m.inputs.map (fun i => "  input " ++ i ++ ";\n")) ++ "\n" ++
    String.join (m.outputs.map (fun o => "  output " ++ o ++ ";\n")) ++ "\n" ++
    String.join (m.wires.map (fun w => "  wire " ++ w ++ ";\n")) ++ "\n" ++
    String.join ((m.stmts.zip (m.parens ++ List.replicate m.stmts.length false)).map
      (fun i => "  " ++ renderStmt i.2 i.1 ++ ";\n")) ++ "endmodule\n"

/-- `io.circuit_to_verilog(c, behavioral)` -/
def write (c : Circuit) (behavioral : Bool) (ord : Ord) : E String := (toWModule c behavioral ord).map render

/-- the module the reader's parser should recover from the written text -/
def WModule.toModule (m : WModule) : Module :=
  { name := m.name, ports := m.inputs ++ m.outputs,
    items := m.inputs.map (fun i => Item.input [i]) ++ m.outputs.map (fun o => Item.output [o]) ++
             m.wires.map (fun w => Item.wire [w]) ++ m.stmts }

end Verilog
end CG
