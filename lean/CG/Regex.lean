/-
  CG.Regex — a backtracking regular-expression engine for the subset of Python `re` syntax used by the
  bench and fast-Verilog readers (literals, escapes \s \S \d \w, classes, negated classes, `.`, greedy and lazy
  `* + ?`, capturing and non-capturing groups, alternation), with Python's priority semantics, `search` and
  `findall`.  The patterns themselves are extracted from the sources at run time (CG.Generated); this engine
  stands in for CPython's `re` and is differential-tested against it on those patterns.
-/
namespace CG
namespace Regex

/-- a set of characters: ranges, with optional negation -/
structure CSet where
  neg : Bool := false
  ranges : List (Char × Char) := []
deriving Repr, Inhabited, DecidableEq

def CSet.mem (s : CSet) (c : Char) : Bool :=
  let inside := s.ranges.any (fun r => r.1 ≤ c && c ≤ r.2)
  if s.neg then !inside else inside

def wsRanges : List (Char × Char) := [(' ', ' '), ('\t', '\r'), ('\x1c', '\x1f'), ('\x85', '\x85'), ('\xa0', '\xa0')]
def digitRanges : List (Char × Char) := [('0', '9')]
def wordRanges : List (Char × Char) := [('a', 'z'), ('A', 'Z'), ('0', '9'), ('_', '_')]

inductive Re where
  | eps
  | set (s : CSet)
  | any                         -- `.` (DOTALL decides whether it matches newline)
  | seq (a b : Re)
  | alt (a b : Re)
  | star (r : Re) (greedy : Bool)
  | plus (r : Re) (greedy : Bool)
  | opt (r : Re) (greedy : Bool)
  | group (idx : Nat) (r : Re)  -- capturing group number idx (1-based)
  | wordb                       -- `\b`: word boundary (zero width)
deriving Repr, Inhabited

/-! ### parser for the Python pattern syntax (subset) -/

structure PState where
  rest : List Char
  ngroups : Nat
deriving Inhabited

def escapeSet (c : Char) : Option CSet :=
  match c with
  | 's' => some { ranges := wsRanges }
  | 'S' => some { neg := true, ranges := wsRanges }
  | 'd' => some { ranges := digitRanges }
  | 'D' => some { neg := true, ranges := digitRanges }
  | 'w' => some { ranges := wordRanges }
  | 'W' => some { neg := true, ranges := wordRanges }
  | 'n' => some { ranges := [('\n', '\n')] }
  | 't' => some { ranges := [('\t', '\t')] }
  | _ => none

/-- body of a bracket class up to the closing `]` -/
def parseClassBody : Nat → List Char → List (Char × Char) → Option (List (Char × Char) × List Char)
  | 0, _, _ => none
  | _ + 1, [], _ => none
  | _ + 1, ']' :: rest, acc => some (acc, rest)
  | fuel + 1, '\\' :: c :: rest, acc =>
    match escapeSet c with
    | some s => if s.neg then none else parseClassBody fuel rest (acc ++ s.ranges)
    | none => parseClassBody fuel rest (acc ++ [(c, c)])
  | fuel + 1, a :: '-' :: b :: rest, acc =>
    if b == ']' then parseClassBody fuel (b :: rest) (acc ++ [(a, a), ('-', '-')])
    else parseClassBody fuel rest (acc ++ [(a, b)])
  | fuel + 1, a :: rest, acc => parseClassBody fuel rest (acc ++ [(a, a)])

/-! The four mutually recursive parser functions take an explicit fuel argument (structural recursion, so that the
    kernel can evaluate `parse` on a concrete pattern).  Every call decrements the fuel by one; a call chain
    `parseAlt → parseSeq → parseQuant → parseAtom → parseAlt` consumes at least one character of the pattern, and so do
    `parseSeq → parseSeq` and `parseAlt → parseAlt`, hence a call on a rest of length `n` needs at most `4 * n + 2`
    units and `parse` (which starts with `4 * length + 8`) never runs out. -/
mutual
/-- alternation level -/
def parseAlt : Nat → PState → Option (Re × PState)
  | 0, _ => none
  | fuel + 1, st => do
    let (a, st1) ← parseSeq fuel st
    match st1.rest with
    | '|' :: rest =>
      let (b, st2) ← parseAlt fuel { st1 with rest := rest }
      pure (Re.alt a b, st2)
    | _ => pure (a, st1)

def parseSeq : Nat → PState → Option (Re × PState)
  | 0, _ => none
  | fuel + 1, st => do
    match st.rest with
    | [] => pure (Re.eps, st)
    | '|' :: _ => pure (Re.eps, st)
    | ')' :: _ => pure (Re.eps, st)
    | _ =>
      let (a, st1) ← parseQuant fuel st
      let (b, st2) ← parseSeq fuel st1
      pure (match b with | Re.eps => a | _ => Re.seq a b, st2)

def parseQuant : Nat → PState → Option (Re × PState)
  | 0, _ => none
  | fuel + 1, st => do
    let (a, st1) ← parseAtom fuel st
    match st1.rest with
    | '*' :: '?' :: rest => pure (Re.star a false, { st1 with rest := rest })
    | '*' :: rest => pure (Re.star a true, { st1 with rest := rest })
    | '+' :: '?' :: rest => pure (Re.plus a false, { st1 with rest := rest })
    | '+' :: rest => pure (Re.plus a true, { st1 with rest := rest })
    | '?' :: '?' :: rest => pure (Re.opt a false, { st1 with rest := rest })
    | '?' :: rest => pure (Re.opt a true, { st1 with rest := rest })
    | _ => pure (a, st1)

def parseAtom : Nat → PState → Option (Re × PState)
  | 0, _ => none
  | fuel + 1, st => do
    match st.rest with
    | [] => none
    | '(' :: '?' :: ':' :: rest =>
      let (r, st1) ← parseAlt fuel { st with rest := rest }
      match st1.rest with
      | ')' :: rest' => pure (r, { st1 with rest := rest' })
      | _ => none
    | '(' :: rest =>
      let idx := st.ngroups + 1
      let (r, st1) ← parseAlt fuel { rest := rest, ngroups := idx }
      match st1.rest with
      | ')' :: rest' => pure (Re.group idx r, { st1 with rest := rest' })
      | _ => none
    | '[' :: '^' :: rest =>
      let (rs, rest') ← parseClassBody (rest.length + 1) rest []
      pure (Re.set { neg := true, ranges := rs }, { st with rest := rest' })
    | '[' :: rest =>
      let (rs, rest') ← parseClassBody (rest.length + 1) rest []
      pure (Re.set { ranges := rs }, { st with rest := rest' })
    | '.' :: rest => pure (Re.any, { st with rest := rest })
    | '\\' :: 'b' :: rest => pure (Re.wordb, { st with rest := rest })
    | '\\' :: c :: rest =>
      match escapeSet c with
      | some s => pure (Re.set s, { st with rest := rest })
      | none => pure (Re.set { ranges := [(c, c)] }, { st with rest := rest })
    | c :: rest =>
      if c == '*' || c == '+' || c == '?' || c == ')' || c == '|' then none
      else pure (Re.set { ranges := [(c, c)] }, { st with rest := rest })
end

/-- parse a pattern: the regex and its number of capturing groups -/
def parse (p : String) : Option (Re × Nat) :=
  match parseAlt (4 * p.toList.length + 8) { rest := p.toList, ngroups := 0 } with
  | some (r, st) => if st.rest.isEmpty then some (r, st.ngroups) else none
  | none => none

/-! ### matcher (continuation passing, Python/Perl priority) -/

abbrev Caps := List (Nat × Nat × Nat)      -- (group, start, end), latest first

structure Ctx where
  s : Array Char
  dotall : Bool

/-- `m fuel r pos caps k`: try to match `r` at `pos`, then continue with `k`; first success wins -/
def m (ctx : Ctx) : Nat → Re → Nat → Caps → (Nat → Caps → Option (Nat × Caps)) → Option (Nat × Caps)
  | 0, _, _, _, _ => none
  | fuel + 1, r, pos, caps, k =>
    match r with
    | .eps => k pos caps
    | .set s =>
      if h : pos < ctx.s.size then (if s.mem ctx.s[pos] then k (pos + 1) caps else none) else none
    | .any =>
      if h : pos < ctx.s.size then (if ctx.dotall || ctx.s[pos] != '\n' then k (pos + 1) caps else none) else none
    | .wordb =>
      let isW := fun (i : Nat) => if h : i < ctx.s.size then CSet.mem { ranges := wordRanges } ctx.s[i] else false
      let before := if pos == 0 then false else isW (pos - 1)
      if before != isW pos then k pos caps else none
    | .seq a b => m ctx fuel a pos caps (fun p c => m ctx fuel b p c k)
    | .alt a b =>
      match m ctx fuel a pos caps k with
      | some res => some res
      | none => m ctx fuel b pos caps k
    | .group idx r' => m ctx fuel r' pos caps (fun p c => k p ((idx, pos, p) :: c))
    | .opt r' greedy =>
      if greedy then
        match m ctx fuel r' pos caps k with
        | some res => some res
        | none => k pos caps
      else
        match k pos caps with
        | some res => some res
        | none => m ctx fuel r' pos caps k
    | .star r' greedy =>
      let more := fun (_ : Unit) => m ctx fuel r' pos caps (fun p c => if p == pos then none else m ctx fuel (.star r' greedy) p c k)
      if greedy then
        match more () with
        | some res => some res
        | none => k pos caps
      else
        match k pos caps with
        | some res => some res
        | none => more ()
    | .plus r' greedy => m ctx fuel r' pos caps (fun p c => m ctx fuel (.star r' greedy) p c k)

def capOf (caps : Caps) (idx : Nat) : Option (Nat × Nat) :=
  (caps.find? (fun c => c.1 == idx)).map (fun c => (c.2.1, c.2.2))

def slice (s : Array Char) (a b : Nat) : String := String.ofList ((s.toList.drop a).take (b - a))

/-- first match at or after `start`: (match start, match end, captures) -/
def searchFrom (ctx : Ctx) (r : Re) (fuel : Nat) : Nat → Nat → Option (Nat × Nat × Caps)
  | 0, _ => none
  | tries + 1, start =>
    if start > ctx.s.size then none else
    match m ctx fuel r start [] (fun p c => some (p, c)) with
    | some (e, caps) => some (start, e, caps)
    | none => searchFrom ctx r fuel tries (start + 1)

structure Match where
  start : Nat
  stop : Nat
  groups : List (Option String)      -- groups 1..n
deriving Repr, Inhabited

def mkMatch (ctx : Ctx) (ngroups : Nat) (a b : Nat) (caps : Caps) : Match :=
  { start := a, stop := b,
    groups := (List.range ngroups).map (fun i => (capOf caps (i + 1)).map (fun p => slice ctx.s p.1 p.2)) }

def fuelFor (s : Array Char) : Nat := 64 * (s.size + 4) + 4096

/-- `re.search(pattern, text, flags)` -/
def search (pat : String) (text : String) (dotall : Bool := false) : Option (Option Match) :=
  match parse pat with
  | none => none
  | some (r, ng) =>
    let ctx : Ctx := { s := text.toList.toArray, dotall := dotall }
    some ((searchFrom ctx r (fuelFor ctx.s) (ctx.s.size + 1) 0).map (fun x => mkMatch ctx ng x.1 x.2.1 x.2.2))

/-- all non-overlapping matches, scanning left to right (an empty match advances by one) -/
def allMatches (ctx : Ctx) (r : Re) (ng : Nat) : Nat → Nat → List Match
  | 0, _ => []
  | fuel + 1, start =>
    match searchFrom ctx r (fuelFor ctx.s) (ctx.s.size + 1) start with
    | none => []
    | some (a, b, caps) => mkMatch ctx ng a b caps :: allMatches ctx r ng fuel (if b == a then b + 1 else b)

/-- `re.findall(pattern, text, flags)`: per match the list of groups (the whole match when there is no group) -/
def findall (pat : String) (text : String) (dotall : Bool := false) : Option (List (List String)) :=
  match parse pat with
  | none => none
  | some (r, ng) =>
    let ctx : Ctx := { s := text.toList.toArray, dotall := dotall }
    some ((allMatches ctx r ng (ctx.s.size + 2) 0).map (fun mt =>
      if ng == 0 then [slice ctx.s mt.start mt.stop] else mt.groups.map (·.getD "")))

end Regex
end CG
