/-
  CG.Query — graph queries of circuit.py / props.py as coded (networkx pieces re-implemented from their
  documented meaning: ancestors/descendants = proper reachability, is_directed_acyclic_graph, Kahn order).
-/
import CG.Ops
namespace CG
namespace Query

/-- one BFS layer expansion; `succ` gives neighbours in the search direction -/
def closureGo (succ : Name → List Name) : Nat → List Name → List Name → List Name
  | 0, _, seen => seen
  | fuel + 1, frontier, seen =>
    let next := dedup ((frontier.flatMap succ).filter (fun x => !seen.contains x))
    if next.isEmpty then seen else closureGo succ fuel next (seen ++ next)

/-- `nx.descendants(G, n)`: nodes reachable by a path of length ≥ 1, never `n` itself -/
def descendants (c : Circuit) (n : Name) : List Name :=
  (closureGo c.fanout (c.nodes.length + 1) (dedup (c.fanout n)) (dedup (c.fanout n))).filter (· != n)

def ancestors (c : Circuit) (n : Name) : List Name :=
  (closureGo c.fanin (c.nodes.length + 1) (dedup (c.fanin n)) (dedup (c.fanin n))).filter (· != n)

def unionAll (ls : List (List Name)) : List Name := dedup ls.flatten

/-- `c.transitive_fanin(ns)`; NetworkXError when a node is missing -/
def transitiveFanin (c : Circuit) (ns : List Name) : Except Outcome (List Name) :=
  if ns.any (fun n => !c.has n) then .error .nxError else .ok (unionAll (ns.map (ancestors c)))

def transitiveFanout (c : Circuit) (ns : List Name) : Except Outcome (List Name) :=
  if ns.any (fun n => !c.has n) then .error .nxError else .ok (unionAll (ns.map (descendants c)))

def faninOf (c : Circuit) (ns : List Name) : Except Outcome (List Name) :=
  if ns.any (fun n => !c.has n) then .error .nxError else .ok (unionAll (ns.map c.fanin))

def fanoutOf (c : Circuit) (ns : List Name) : Except Outcome (List Name) :=
  if ns.any (fun n => !c.has n) then .error .nxError else .ok (unionAll (ns.map c.fanout))

/-- `c.startpoints(ns)` for an argument that is not None (after the K52 repair an empty collection selects nothing;
    `startpointsOpt` below is the whole method, `None` = all startpoints) -/
def startpoints (c : Circuit) (ns : List Name) : Except Outcome (List Name) :=
  if c.nodes.any (fun p => p.2.ty.isNone) then .error .keyError else
  match transitiveFanin c ns with
  | .error e => .error e
  | .ok tfi => .ok ((dedup (ns ++ tfi)).filter c.startpointsAll.contains)

def endpoints (c : Circuit) (ns : List Name) : Except Outcome (List Name) :=
  if c.nodes.any (fun p => p.2.ty.isNone) then .error .keyError else
  match transitiveFanout c ns with
  | .error e => .error e
  | .ok tfo => .ok ((dedup (ns ++ tfo)).filter c.endpointsAll.contains)

/-- `c.startpoints(ns=None)` / `c.endpoints(ns=None)`: only `None` selects everything -/
def startpointsOpt (c : Circuit) (ns? : Option (List Name)) : Except Outcome (List Name) :=
  match ns? with
  | some ns => startpoints c ns
  | none => if c.nodes.any (fun p => p.2.ty.isNone) then .error .keyError else .ok c.startpointsAll

def endpointsOpt (c : Circuit) (ns? : Option (List Name)) : Except Outcome (List Name) :=
  match ns? with
  | some ns => endpoints c ns
  | none => if c.nodes.any (fun p => p.2.ty.isNone) then .error .keyError else .ok c.endpointsAll

/-- Kahn's algorithm: repeatedly take the first remaining node without remaining predecessors -/
def kahn (c : Circuit) : Nat → List Name → List Name → Option (List Name)
  | 0, _, _ => none
  | _ + 1, [], acc => some acc.reverse
  | fuel + 1, remaining, acc =>
    match remaining.find? (fun n => (c.fanin n).all (fun p => !remaining.contains p)) with
    | none => none
    | some n => kahn c fuel (remaining.filter (· != n)) (n :: acc)

/-- a topological order, or `none` when the graph has a directed cycle -/
def topoSort (c : Circuit) : Option (List Name) := kahn c (c.nodes.length + 1) c.nodeNames []

def isCyclic (c : Circuit) : Bool := (topoSort c).isNone

abbrev Visited := List (Name × Nat)

def vget (vis : Visited) (n : Name) : Option Nat := vis.lookup n
def vset (vis : Visited) (n : Name) (d : Nat) : Visited :=
  if (vis.lookup n).isSome then vis.map (fun p => if p.1 == n then (n, d) else p) else vis ++ [(n, d)]

/-- `visit_node` of `fanout_depth` (dir = fanout) / `fanin_depth` (dir = fanin), as coded: the depth is
    max/min-merged, then the node's successors are visited if all its reachable predecessors are visited -/
def visit (pred succ : Name → List Name) (ord : Ord) (maximum : Bool) (reachable : List Name) :
    Nat → Name → Visited → Nat → Option Visited
  | 0, _, _, _ => none
  | fuel + 1, n, vis, depth =>
    let d := match vget vis n with
      | some old => if maximum then max old depth else min old depth
      | none => depth
    let vis1 := vset vis n d
    if ((pred n).filter reachable.contains).all (fun fi => (vget vis1 fi).isSome) then
      (ord (dedup (succ n))).foldlM (fun v fo => visit pred succ ord maximum reachable fuel fo v (d + 1)) vis1
    else some vis1

/-- `c.fanout_depth(ns, maximum)` / `c.fanin_depth` (`fwd = false`) -/
def depth (c : Circuit) (fwd : Bool) (ns : List Name) (maximum : Bool) (ord : Ord) (fuel : Nat) :
    Except Outcome Nat :=
  if isCyclic c then .error .valueError else
  let succ := if fwd then c.fanout else c.fanin
  let pred := if fwd then c.fanin else c.fanout
  match (if fwd then transitiveFanout c ns else transitiveFanin c ns) with
  | .error e => .error e
  | .ok reachable =>
    let vis0 : Visited := ns.foldl (fun v n => vset v n 0) []
    match (if fwd then fanoutOf c ns else faninOf c ns) with
    | .error e => .error e
    | .ok first =>
      match (ord first).foldlM (fun v f => visit pred succ ord maximum reachable fuel f v 1) vis0 with
      | none => .error .fuel
      | some vis =>
        match vis.map (·.2) with
        | [] => .error .valueError     -- max() of an empty dict
        | x :: xs => .ok (xs.foldl (fun a b => if maximum then max a b else min a b) x)

/-- `props.levelize(c)` -/
def levelize (c : Circuit) : Except Outcome (List (Name × Nat)) :=
  match topoSort c with
  | none => .error .valueError
  | some order =>
    if c.nodes.any (fun p => p.2.ty.isNone) then .error .keyError else
    let init : List (Name × Nat) := (dedup (c.inputs ++ c.filterType ["0", "1", "x"])).map (fun n => (n, 0))
    order.foldlM (fun (lv : List (Name × Nat)) n =>
      if (lv.lookup n).isSome then .ok lv else
      match (c.fanin n).map (fun fi => (lv.lookup fi).getD 0) with
      | [] => .ok (lv ++ [(n, 0)])     -- `max(..., default=-1) + 1` (K6b fix)
      | x :: xs => .ok (lv ++ [(n, xs.foldl max x + 1)])) init

/-- all unordered pairs, as `itertools.combinations(l, 2)` -/
def pairs : List Name → List (Name × Name)
  | [] => []
  | x :: xs => xs.map (fun y => (x, y)) ++ pairs xs

/-- `c.reconvergent_fanout_nodes()` (after the K6 fix: a branch reaches itself) -/
def reconvergentFanoutNodes (c : Circuit) (ord : Ord) : List Name :=
  (ord c.nodeNames).filter (fun node =>
    let fo := ord (dedup (c.fanout node))
    fo.length > 1 && (pairs fo).any (fun p =>
      ((p.1 :: descendants c p.1).any (fun x => (p.2 :: descendants c p.2).contains x))))

def setEq (a b : List Name) : Bool := a.all b.contains && b.all a.contains

/-- `c.kcuts(n, k)` without the memo table (same result): list of cuts (each a set) -/
def kcuts (c : Circuit) (k : Nat) (ord : Ord) : Nat → Name → Option (List (List Name))
  | 0, _ => none
  | fuel + 1, n =>
    match ord (dedup (c.fanin n)) with
    | [] => some [[n]]
    | f :: fs =>
      match kcuts c k ord fuel f, fs.mapM (kcuts c k ord fuel) with
      | some c0, some rest =>
        let merge := fun (a b : List (List Name)) =>
          (a.flatMap (fun ac => b.map (fun bc => dedup (ac ++ bc)))).filter (fun m => m.length ≤ k)
        some (rest.foldl merge c0 ++ [[n]])
      | _, _ => none

end Query
end CG
