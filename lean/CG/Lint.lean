/-
  CG.Lint — `utils.lint` exactly as coded: iteration over `c.nodes()` in set order, every check
  in source order.  Each check that fires is an *event* `err` (a call of `handle`).  Under `fail_fast` the
  first event raises; otherwise any `err` gives ValueError at the end.  (Before the K19 fix there
  was a second event kind for `KeyError`s escaping from attribute lookups.)
  Type lists come from `CG.Generated`.
-/
import CG.Ops
namespace CG

structure LintFlags where
  failFast : Bool := true
  unloaded : Bool := false
  undriven : Bool := true
  singleInputGates : Bool := false
deriving Repr, Inhabited, DecidableEq

inductive Ev where | err
deriving DecidableEq, Repr, Inhabited

/-- text before the first '.' -/
def dotPrefix (g : Name) : Name := String.ofList (g.toList.takeWhile (· != '.'))

def hasDot (g : Name) : Bool := g.toList.contains '.'

def evIf (b : Bool) : List Ev := if b then [Ev.err] else []

/-- the two load checks on a blackbox output -/
def lintBBOutLoads (c : Circuit) (ord : Ord) (fo : List Name) : List Ev :=
  evIf (fo.length > 1) ++
  (match ord fo with
   | [] => []
   | f :: _ => evIf (c.ty? f != some "buf"))

/-- events of the checks on one typed node -/
def lintTyped (c : Circuit) (fl : LintFlags) (ord : Ord) (g : Name) (a : Attr) (t : String) : List Ev :=
  let fi := c.fanin g
  let fo := c.fanout g
  evIf (!T.supported.contains t)
  ++ evIf (hasDot g && (c.bbs.lookup (dotPrefix g)).isNone)
  ++ evIf ((T.lintL 0).contains t && fi.length > 0)
  ++ (if t == "bb_output" then lintBBOutLoads c ord fo else [])
  ++ evIf ((T.lintL 1).contains t && fi.length > 1)
  ++ evIf (fl.undriven && ((T.lintL 1).contains t || (T.lintL 2).contains t) && fi.length < 1)
  ++ evIf (fl.singleInputGates && (T.lintL 2).contains t && fi.length < 2)
  ++ evIf (fl.unloaded && !(a.out.getD false) && fo.isEmpty)

def lintNode (c : Circuit) (fl : LintFlags) (ord : Ord) (g : Name) : List Ev :=
  let a := (c.attr? g).getD {}
  match a.ty with
  | none => [Ev.err]
  | some t => lintTyped c fl ord g a t

def lintPin (c : Circuit) (want : String) (pin : Name) : List Ev :=
  match c.attr? pin with
  | none => [Ev.err]
  | some a =>
    evIf (a.ty != some want)

def lintBB (c : Circuit) (ord : Ord) (p : Name × BBox) : List Ev :=
  (ord p.2.ins).flatMap (fun g => lintPin c "bb_input" (p.1 ++ "." ++ g))
  ++ (ord p.2.outs).flatMap (fun g => lintPin c "bb_output" (p.1 ++ "." ++ g))

def lintEvents (c : Circuit) (fl : LintFlags) (ord : Ord) : List Ev :=
  (ord c.nodeNames).flatMap (lintNode c fl ord) ++ c.bbs.flatMap (lintBB c ord)

def lintOutcome (ff : Bool) (evs : List Ev) : Outcome :=
  if ff then
    match evs with
    | [] => .ok
    | Ev.err :: _ => .valueError
  else if evs.contains Ev.err then .valueError
  else .ok

/-- outcome of `lint(c, **flags)`: `.ok`, `.valueError` or an escaping `.keyError` -/
def lint (c : Circuit) (fl : LintFlags := {}) (ord : Ord := id) : Outcome :=
  lintOutcome fl.failFast (lintEvents c fl ord)

end CG
