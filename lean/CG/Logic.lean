/-
  CG.Logic — the generators of logic.py and the bit helpers of utils.py, as coded.
-/
import CG.Tx
namespace CG
namespace Logic
open Tx (addC)

/-- `utils.clog2(num)`: ValueError below 1, else the shift loop -/
def clog2Go : Nat → Nat → Nat → Nat → Nat
  | 0, _, accum, _ => accum
  | fuel + 1, num, accum, shifter => if num > shifter then clog2Go fuel num (accum + 1) (shifter * 2) else accum

def clog2 (num : Nat) : E Nat :=
  if num < 1 then .error .valueError else .ok (clog2Go num num 0 1)

/-- binary digits of `i`, most significant first (`bin(i)[2:]`; `"0"` for 0) -/
def binDigits (i : Nat) : List Bool :=
  if i = 0 then [false] else (Nat.toDigits 2 i).map (· == '1')

/-- `utils.int_to_bin(i, w, lend)`: `zfill` pads on the left and never truncates -/
def intToBin (i w : Nat) (lend : Bool) : List Bool :=
  let d := binDigits i
  let msb := List.replicate (w - d.length) false ++ d
  if lend then msb.reverse else msb

/-- `utils.bin_to_int(b, lend)` -/
def binToInt (b : List Bool) (lend : Bool) : Nat :=
  let msb := if lend then b.reverse else b
  msb.foldl (fun acc x => 2 * acc + (if x then 1 else 0)) 0

def halfAdder : E Circuit :=
  addC { name := "half_adder" } { n := "x", ty := "input" } >>= fun c =>
  addC c { n := "y", ty := "input" } >>= fun c =>
  addC c { n := "c", ty := "and", fanin := ["x", "y"], output := true } >>= fun c =>
  addC c { n := "s", ty := "xor", fanin := ["x", "y"], output := true }

def fullAdder : E Circuit :=
  halfAdder >>= fun ha =>
  addC { name := "full_adder" } { n := "x", ty := "input" } >>= fun c =>
  addC c { n := "y", ty := "input" } >>= fun c =>
  addC c { n := "cin", ty := "input" } >>= fun c =>
  liftO (c.addSubcircuit ha "x_y_ha" [("x", ["x"]), ("y", ["y"])]) >>= fun c =>
  liftO (c.addSubcircuit ha "cin_s_ha" [("x", ["x_y_ha_s"]), ("y", ["cin"])]) >>= fun c =>
  addC c { n := "cout", ty := "or", fanin := ["x_y_ha_c", "cin_s_ha_c"], output := true } >>= fun c =>
  addC c { n := "s", ty := "buf", fanin := ["cin_s_ha_s"], output := true }

/-- one iteration of `adder`'s bit loop: state = (circuit, current carry net) -/
def adderBit (fa : Circuit) (s : Circuit × Name) (bit : Nat) : E (Circuit × Name) :=
  let b := toString bit
  addC s.1 { n := "a_" ++ b, ty := "input" } >>= fun c =>
  addC c { n := "b_" ++ b, ty := "input" } >>= fun c =>
  addC c { n := "out_" ++ b, ty := "buf", output := true } >>= fun c =>
  liftO (c.addSubcircuit fa ("fa_" ++ b)
    [("x", ["a_" ++ b]), ("y", ["b_" ++ b]), ("cin", [s.2]), ("s", ["out_" ++ b])]) >>= fun c =>
  pure (c, "fa_" ++ b ++ "_cout")

def adder (width : Nat) (carryIn carryOut : Bool) : E Circuit :=
  fullAdder >>= fun fa =>
  addE { name := "adder" } { n := "cin", ty := if carryIn then "input" else "0" } >>= fun r =>
  (List.range width).foldlM (adderBit fa) (r.1, r.2) >>= fun s =>
  if carryOut then addC s.1 { n := "cout", ty := "buf", fanin := [s.2], output := true } else pure s.1

/-- the i-th tuple of `product(*sels[::-1])`: select literals for index `i`, most significant select first -/
def muxSel (k i : Nat) : List Name :=
  (List.range k).reverse.map (fun j => if (i / 2 ^ j) % 2 == 1 then "sel_" ++ toString j else "not_sel_" ++ toString j)

def mux (w : Nat) : E Circuit :=
  clog2 w >>= fun k =>
  (List.range w).foldlM (fun c i => addC c { n := "in_" ++ toString i, ty := "input" }) ({ name := "mux" } : Circuit) >>= fun c =>
  (List.range k).foldlM (fun c i =>
      addC c { n := "sel_" ++ toString i, ty := "input" } >>= fun c =>
      addC c { n := "not_sel_" ++ toString i, ty := "not", fanin := ["sel_" ++ toString i] }) c >>= fun c =>
  addC c { n := "out", ty := "or", output := true } >>= fun c =>
  (List.range w).foldlM (fun c i =>
      addC c { n := "and_" ++ toString i, ty := "and", fanin := muxSel k i ++ ["in_" ++ toString i], fanout := ["out"] }) c

def padTo (l : List Name) (n : Nat) : List Name := l ++ List.replicate (n - l.length) "tie0"

/-- one iteration of `popcount`'s queue loop: state = (circuit, queue of bit vectors, adder index) -/
def popcountStep (s : Circuit × List (List Name) × Nat) : E (Circuit × List (List Name) × Nat) :=
  match s with
  | (c, ns :: ms :: rest, i) =>
    let aw := max ns.length ms.length
    let ns := padTo ns aw
    let ms := padTo ms aw
    let inst := "add_" ++ toString i
    adder aw false true >>= fun ad =>
    liftO (c.addSubcircuit ad inst []) >>= fun c =>
    let c := c.relabel [(inst ++ "_cout", inst ++ "_out_" ++ toString aw)]
    (List.range aw).foldlM (fun c j =>
        liftO (c.connect [ns.getD j ""] [inst ++ "_a_" ++ toString j]) >>= fun c =>
        liftO (c.connect [ms.getD j ""] [inst ++ "_b_" ++ toString j])) c >>= fun c =>
    pure (c, rest ++ [(List.range (aw + 1)).map (fun j => inst ++ "_out_" ++ toString j)], i + 1)
  | _ => .error (.other "impossible")

def popcountLoop : Nat → Circuit × List (List Name) × Nat → E (Circuit × List (List Name) × Nat)
  | 0, _ => .error .fuel
  | fuel + 1, s => if s.2.1.length > 1 then popcountStep s >>= popcountLoop fuel else pure s

def popcount (w : Nat) : E Circuit :=
  (List.range w).foldlM (fun c i => addC c { n := "in_" ++ toString i, ty := "input" }) ({ name := "popcount" } : Circuit) >>= fun c =>
  addC c { n := "tie0", ty := "0" } >>= fun c =>
  popcountLoop (w + 1) (c, (List.range w).map (fun i => ["in_" ++ toString i]), 0) >>= fun s =>
  match s.2.1 with
  | [] => .error .indexError
  | p0 :: _ =>
    (List.range p0.length).foldlM (fun c i =>
      addC c { n := "out_" ++ toString i, ty := "buf", fanin := [p0.getD i ""], output := true }) s.1 >>= fun c =>
    if (c.fanout "tie0").isEmpty then pure (c.remove ["tie0"]) else pure c

end Logic
end CG
