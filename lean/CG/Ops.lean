/-
  CG.Ops — the construction API of `Circuit` (circuit.py), following the code line by line,
  including the exception class raised and the partially mutated state left behind.
  Type lists come from `CG.Generated` (regenerated from the sources on every run).
-/
import CG.Generated
namespace CG

namespace T
def primitive : List String := Generated.primitive_gates.getD Expected.primitive_gates
def addable : List String := Generated.addable_types.getD Expected.addable_types
def supported : List String := Generated.supported_types.getD Expected.supported_types
def addL (i : Nat) : List String := (Generated.add_lists.getD Expected.add_lists).getD i []
def connectL (i : Nat) : List String := (Generated.connect_lists.getD Expected.connect_lists).getD i []
def removeUnloadedL (i : Nat) : List String :=
  (Generated.remove_unloaded_lists.getD Expected.remove_unloaded_lists).getD i []
def lintL (i : Nat) : List String := (Generated.lint_lists.getD Expected.lint_lists).getD i []
def gatemap : List (String × String) := Generated.gatemap.getD Expected.gatemap
def ternaryL (i : Nat) : List String := (Generated.ternary_lists.getD Expected.ternary_lists).getD i []
def subcircuitL (i : Nat) : List String :=
  (Generated.subcircuit_lists.getD Expected.subcircuit_lists).getD i []
def cnf : CnfTables := Generated.cnf.getD Expected.cnf
end T

namespace Circuit

/-- `graph.add_node(n, **attrs)`: new node appended; existing node keeps its position and
    edges, the given attributes overwrite. -/
def addNodeAttr (c : Circuit) (n : Name) (a : Attr) : Circuit :=
  if c.has n then
    { c with nodes := c.nodes.map (fun p => if p.1 == n then
        (p.1, { ty := a.ty.orElse (fun _ => p.2.ty), out := a.out.orElse (fun _ => p.2.out) }) else p) }
  else { c with nodes := c.nodes ++ [(n, a)] }

def addEdge (c : Circuit) (u v : Name) : Circuit :=
  if c.edges.contains (u, v) then c else { c with edges := c.edges ++ [(u, v)] }

/-- `graph.add_edges_from((u, v) for u in us for v in vs)` (endpoints exist) -/
def addEdges (c : Circuit) (us vs : List Name) : Circuit :=
  us.foldl (fun c u => vs.foldl (fun c v => c.addEdge u v) c) c

def removeNode (c : Circuit) (n : Name) : Circuit :=
  { c with nodes := c.nodes.filter (fun p => !(p.1 == n)),
           edges := c.edges.filter (fun e => !(e.1 == n) && !(e.2 == n)) }

/-- `c.remove(ns)` : silently ignores missing nodes -/
def remove (c : Circuit) (ns : List Name) : Circuit := ns.foldl removeNode c

/-- `c.disconnect(us, vs)` : silently ignores missing edges -/
def disconnect (c : Circuit) (us vs : List Name) : Circuit :=
  { c with edges := c.edges.filter (fun e => !(us.contains e.1 && vs.contains e.2)) }

def setTyRaw (c : Circuit) (n : Name) (t : String) : Circuit :=
  { c with nodes := c.nodes.map (fun p => if p.1 == n then (p.1, { p.2 with ty := some t }) else p) }

def setOutRaw (c : Circuit) (n : Name) (b : Bool) : Circuit :=
  { c with nodes := c.nodes.map (fun p => if p.1 == n then (p.1, { p.2 with out := some b }) else p) }

/-- `c.set_output(ns, b)`: KeyError at the first missing node (earlier ones stay set) -/
def setOutput (c : Circuit) : List Name → Bool → Circuit × Outcome
  | [], _ => (c, .ok)
  | n :: ns, b => if c.has n then (c.setOutRaw n b).setOutput ns b else (c, .keyError)

/-- `c.set_type(ns, t)` -/
def setType (c : Circuit) (ns : List Name) (t : String) : Circuit × Outcome :=
  if !T.addable.contains t then (c, .valueError) else
  let rec go (c : Circuit) : List Name → Circuit × Outcome
    | [] => (c, .ok)
    | n :: ns => if c.has n then go (c.setTyRaw n t) ns else (c, .keyError)
  go c ns

/-- candidate suffix sequence of `uid`: 0,1,…,10,70,490,… -/
def uidNext (i : Nat) : Nat := if i < 10 then i + 1 else i * 7

def uidName (n : Name) (i : Nat) : Name := n ++ "_" ++ toString i

def uidGo (taken : Name → Bool) (n : Name) : Nat → Nat → Option Name
  | 0, _ => none
  | fuel + 1, i => if taken (uidName n i) then uidGo taken n fuel (uidNext i) else some (uidName n i)

/-- `c.uid(n, blocked)`; `none` only when the fuel is exhausted (never with fuel > #nodes+#blocked) -/
def uid (c : Circuit) (n : Name) (blocked : List Name := []) : Option Name :=
  let taken := fun x => c.has x || blocked.contains x
  if !taken n then some n else uidGo taken n (c.nodes.length + blocked.length + 1) 0

def isDigit0 (n : Name) : Bool :=
  match n.toList with
  | [] => false
  | ch :: _ => "0123456789".toList.contains ch

/-- the checks of `connect`, in the order of the code; `none` = all passed -/
def connectCheck (c : Circuit) (us vs : List Name) : Option Outcome :=
  if us.any (fun n => !c.has n) then some .valueError
  else if vs.any (fun n => !c.has n) then some .valueError
  else
    let rec goV : List Name → Option Outcome
      | [] => none
      | v :: rest =>
        match c.ty? v with
        | none => some .keyError
        | some t =>
          if (T.connectL 0).contains t then some .valueError
          else if (T.connectL 1).contains t && (c.fanin v).length + us.length > 1 then some .valueError
          else goV rest
    let rec goU : List Name → Option Outcome
      | [] => none
      | u :: rest =>
        match c.ty? u with
        | none => some .keyError
        | some t =>
          if (T.connectL 2).contains t then some .valueError
          else if (T.connectL 3).contains t then
            -- every target must be a buf; `self.type(v)` cannot fail here (checked in goV)
            if vs.any (fun v => c.ty? v != some "buf") then some .valueError
            else if (c.fanout u).length + vs.length > 1 then some .valueError
            else goU rest
          else goU rest
    match goV vs with
    | some o => some o
    | none => goU us

/-- `c.connect(us, vs)` (arguments already normalised to lists; `''`/`[]` = falsy) -/
def connect (c : Circuit) (us vs : List Name) : Circuit × Outcome :=
  if us.isEmpty || vs.isEmpty then (c, .ok)
  else match c.connectCheck us vs with
    | some o => (c, o)
    | none => (c.addEdges us vs, .ok)

structure AddArgs where
  n : Name
  ty : String
  fanin : List Name := []
  fanout : List Name := []
  output : Bool := false
  addConnected : Bool := false
  allowRedef : Bool := false
  uid : Bool := false
deriving Repr, Inhabited

/-- `add(f, "buf")` with default flags, as called for auto-created neighbours -/
def addPlainBuf (c : Circuit) (f : Name) : Circuit × Outcome :=
  if c.has f then (c, .valueError)
  else if !T.supported.contains "buf" then (c, .valueError)
  else if f.isEmpty then (c, .indexError)
  else if isDigit0 f then (c, .valueError)
  else (c.addNodeAttr f { ty := some "buf", out := some false }, .ok)

def addConnectedNodes (c : Circuit) : List Name → Circuit × Outcome
  | [] => (c, .ok)
  | f :: fs =>
    if c.has f then c.addConnectedNodes fs
    else match c.addPlainBuf f with
      | (c', .ok) => c'.addConnectedNodes fs
      | r => r

/-- `c.add(...)`: returns the new state, the outcome and the returned name -/
def add (c : Circuit) (a : AddArgs) : Circuit × Outcome × Name :=
  let n? : Option Name := if a.uid then c.uid a.n else some a.n
  match n? with
  | none => (c, .fuel, a.n)
  | some n =>
  if !a.uid && c.has n && !a.allowRedef then (c, .valueError, n)
  else if !T.supported.contains a.ty then (c, .valueError, n)
  else if a.fanin.length > 1 && (T.addL 0).contains a.ty then (c, .valueError, n)
  else if !a.fanin.isEmpty && (T.addL 1).contains a.ty then (c, .valueError, n)
  else if n.isEmpty then (c, .indexError, n)
  else if isDigit0 n then (c, .valueError, n)
  else
    let c1 := c.addNodeAttr n { ty := some a.ty, out := some a.output }
    let (c2, o2) := if a.addConnected then c1.addConnectedNodes (a.fanin ++ a.fanout) else (c1, .ok)
    if o2 != .ok then (c2, o2, n) else
    let (c3, o3) := c2.connect [n] a.fanout
    if o3 != .ok then (c3, o3, n) else
    let (c4, o4) := c3.connect a.fanin [n]
    (c4, o4, n)

/-- add returning just the circuit when the call succeeds -/
def add! (c : Circuit) (a : AddArgs) : Circuit := (c.add a).1

/-- in-place relabel (`nx.relabel_nodes(copy=False)`) for one pair, with merge semantics:
    `new` receives `old`'s attributes (overwriting), all edges of `old` are moved, `old` removed. -/
def relabelOne (c : Circuit) (old new : Name) : Circuit :=
  match c.attr? old with
  | none => c
  | some a =>
    let c1 := c.addNodeAttr new a
    if new == old then c1 else
    let outE := (c.edges.filter (·.1 == old)).map (fun e => (new, if e.2 == old then new else e.2))
    let inE := (c.edges.filter (·.2 == old)).map (fun e => (if e.1 == old then new else e.1, new))
    let c2 := c1.removeNode old
    (outE ++ inE).foldl (fun c e => c.addEdge e.1 e.2) c2

/-- in-place relabel for a mapping whose keys and values do not overlap: pairs are applied in
    graph order of the old names.  (Overlapping maps are topologically sorted by networkx; the
    library never relies on that, the driver reports them as unsupported.) -/
def relabel (c : Circuit) (m : List (Name × Name)) : Circuit :=
  let olds := c.nodeNames.filter (fun n => (m.lookup n).isSome)
  olds.foldl (fun c o => match m.lookup o with | some n => c.relabelOne o n | none => c) c

/-- `nx.relabel_nodes(g, mapping)` (copy) followed by nothing: node list mapped (later
    duplicates merge onto the first position, attributes overwritten), edges mapped. -/
def relabelCopy (c : Circuit) (f : Name → Name) : Circuit :=
  let base : Circuit := { name := c.name, bbs := c.bbs }
  let c1 := c.nodes.foldl (fun acc p => acc.addNodeAttr (f p.1) p.2) base
  c.edges.foldl (fun acc e => acc.addEdge (f e.1) (f e.2)) c1

/-- `self.graph.update(g)` -/
def graphUpdate (c g : Circuit) : Circuit :=
  let c1 := g.nodes.foldl (fun acc p => acc.addNodeAttr p.1 p.2) c
  g.edges.foldl (fun acc e => acc.addEdge e.1 e.2) c1

def setBB (c : Circuit) (inst : Name) (bb : BBox) : Circuit :=
  if (c.bbs.lookup inst).isSome then
    { c with bbs := c.bbs.map (fun p => if p.1 == inst then (inst, bb) else p) }
  else { c with bbs := c.bbs ++ [(inst, bb)] }

def popBB (c : Circuit) (inst : Name) : Circuit :=
  { c with bbs := c.bbs.filter (fun p => !(p.1 == inst)) }

/-- sequentially run a list of connect calls, stopping at the first failure -/
def connectAll (c : Circuit) : List (List Name × List Name) → Circuit × Outcome
  | [] => (c, .ok)
  | (us, vs) :: rest =>
    match c.connect us vs with
    | (c', .ok) => c'.connectAll rest
    | r => r

/-- `c.add_blackbox(bb, name, connections)`; `connections` in dict order, values normalised to lists;
    `pinOrdIn`/`pinOrdOut` = iteration order of the blackbox pin sets -/
def addBlackbox (c : Circuit) (bb : BBox) (inst : Name) (conns : List (Name × List Name))
    (ord : Ord := id) : Circuit × Outcome :=
  if (c.bbs.lookup inst).isSome then (c, .valueError) else
  let rec pins (c : Circuit) (t : String) : List Name → Circuit × Outcome
    | [] => (c, .ok)
    | p :: ps =>
      match c.add { n := inst ++ "." ++ p, ty := t } with
      | (c', .ok, _) => pins c' t ps
      | (c', o, _) => (c', o)
  match pins c "bb_input" (ord bb.ins) with
  | (c1, .ok) =>
    (match pins c1 "bb_output" (ord bb.outs) with
     | (c2', .ok) =>
       let c2 := c2'.setBB inst bb
       let rec go (c : Circuit) : List (Name × List Name) → Circuit × Outcome
         | [] => (c, .ok)
         | (p, ns) :: rest =>
           if bb.ins.contains p then
             (match c.connect ns [inst ++ "." ++ p] with
              | (c', .ok) => go c' rest
              | r => r)
           else if bb.outs.contains p then
             (match c.connect [inst ++ "." ++ p] ns with
              | (c', .ok) => go c' rest
              | r => r)
           else (c, .valueError)
       go c2 conns
     | r => r)
  | r => r

/-- prefix used by add_subcircuit / fill_blackbox -/
def pref (name : Name) (n : Name) : Name := name ++ "_" ++ n

/-- `c.add_subcircuit(sc, name, connections, strip_io)` -/
def addSubcircuit (c sc : Circuit) (name : Name) (conns : List (Name × List Name))
    (stripIO : Bool := true) : Circuit × Outcome :=
  if sc.bbs.any (fun p => (c.bbs.lookup (pref name p.1)).isSome) then (c, .valueError)
  else if sc.nodeNames.any (fun n => c.has (pref name n)) then (c, .valueError)
  else
    -- `sc.inputs()` raises KeyError on a type-less node
    if sc.nodes.any (fun p => p.2.ty.isNone) then (c, .keyError) else
    let scIn := sc.inputs
    let scOut := sc.outputs
    if conns.any (fun p => !scIn.contains p.1 && !scOut.contains p.1) then (c, .valueError) else
    let g := sc.relabelCopy (pref name)
    let c1 := c.graphUpdate g
    let c2 := if stripIO then
        let c' := scIn.foldl (fun acc n => acc.setTyRaw (pref name n) "buf") c1
        scOut.foldl (fun acc n => acc.setOutRaw (pref name n) false) c'
      else c1
    let c3 := sc.bbs.foldl (fun acc p => acc.setBB (pref name p.1) p.2) c2
    c3.connectAll (conns.map (fun p =>
      if scIn.contains p.1 then (p.2, [pref name p.1]) else ([pref name p.1], p.2)))

def sameSet (a b : List Name) : Bool := a.all b.contains && b.all a.contains

/-- `c.fill_blackbox(name, sub)`; `ord` = iteration order of the pin set `bb.io()` -/
def fillBlackbox (c : Circuit) (inst : Name) (sub : Circuit) (ord : Ord := id) : Circuit × Outcome :=
  match c.bbs.lookup inst with
  | none => (c, .valueError)
  | some bb =>
    if sub.bbs.any (fun p => (c.bbs.lookup (pref inst p.1)).isSome) then (c, .valueError)
    else if sub.nodes.any (fun p => p.2.ty.isNone) then (c, .keyError)
    else if !sameSet sub.inputs bb.ins then (c, .valueError)
    else if !sameSet sub.outputs bb.outs then (c, .valueError)
    else if sub.nodeNames.any (fun n => c.has (pref inst n)) then (c, .valueError)
    else
      let pinsIO := ord (union bb.outs bb.ins)
      let c1 := c.relabel (pinsIO.map (fun p => (inst ++ "." ++ p, pref inst p)))
      let g := sub.relabelCopy (pref inst)
      let c2 := c1.graphUpdate g
      let c3 := bb.ins.foldl (fun acc n => acc.setTyRaw (pref inst n) "buf") c2
      let c4 := bb.outs.foldl (fun acc n => acc.setOutRaw (pref inst n) false) c3
      let c5 := c4.popBB inst
      (sub.bbs.foldl (fun acc p => acc.setBB (pref inst p.1) p.2) c5, .ok)

/-- `c.remove_unloaded(inputs)`: LIFO worklist exactly as coded.  `ord` enumerates `fanin(n)`.
    Returns the circuit and the removal order. -/
def removeUnloadedGo (inputs : Bool) (ord : Ord) :
    Nat → Circuit → List Name → List Name → Option (Circuit × List Name)
  | 0, _, _, _ => none
  | _ + 1, c, [], removed => some (c, removed.reverse)
  | fuel + 1, c, wl@(_ :: _), removed =>
    let n := wl.getLast!
    let wl0 := wl.dropLast
    let app := (ord (c.fanin n)).filter (fun fi =>
      !(!inputs && (match c.ty? fi with | some t => (T.removeUnloadedL 2).contains t | none => false))
      && !c.isOut fi && (c.fanout fi).length == 1)
    removeUnloadedGo inputs ord fuel (c.removeNode n) (wl0 ++ app) (n :: removed)

def removeUnloaded (c : Circuit) (inputs : Bool := false) (ord : Ord := id) : Option (Circuit × List Name) :=
  let init := (c.nodes.filter (fun p =>
      (match p.2.ty with | some t => !(T.removeUnloadedL 0).contains t | none => true)
      && !(p.2.out.getD false) && (c.fanout p.1).isEmpty
      && (inputs || (match p.2.ty with | some t => !(T.removeUnloadedL 1).contains t | none => true)))).map (·.1)
  removeUnloadedGo inputs ord (2 * c.nodes.length + c.edges.length + 2) c init []

end Circuit
end CG
