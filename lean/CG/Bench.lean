/-
  CG.Bench — `io.bench_to_circuit` and `io.circuit_to_bench` as coded: four `re.findall` passes with the regular
  expressions extracted from io.py (CG.Generated.regex_bench), then the same `add`/`add_blackbox`/`set_output` calls.
-/
import CG.Tx
import CG.Regex
namespace CG
namespace Bench

namespace Expected
def regexes : List (String × String × Bool) :=
  [("findall", "(?:INPUT|input)\\s*\\(\\s*([a-zA-Z_][a-zA-Z\\d_]*)\\s*\\)", true),
   ("findall", "([a-zA-Z_][a-zA-Z\\d_]*)\\s*=\\s*(buf|buff|not|or|nor|and|nand|xor|xnor|BUF|BUFF|NOT|OR|NOR|AND|NAND|XOR|XNOR)\\s*\\(([^\\)]+)\\)", false),
   ("findall", "([a-zA-Z_][a-zA-Z\\d_]*)\\s*=\\s*(DFF|dff)\\s*\\(([^\\)]+)\\)", false),
   ("findall", "(?:OUTPUT|output)\\s*\\(\\s*([a-zA-Z_][a-zA-Z\\d_]*)\\s*\\)", true)]
end Expected

def regexes : List (String × String × Bool) := Generated.regex_bench.getD Expected.regexes

def rx (i : Nat) : String × Bool := match regexes[i]? with | some e => (e.2.1, e.2.2) | none => ("", false)

/-- the characters `str.split()` treats as white space (`str.isspace`) -/
def pySpace (c : Char) : Bool :=
  let n := c.toNat
  (0x09 ≤ n && n ≤ 0x0d) || (0x1c ≤ n && n ≤ 0x20) || n == 0x85 || n == 0xa0 || n == 0x1680 || (0x2000 ≤ n && n ≤ 0x200a) ||
  n == 0x2028 || n == 0x2029 || n == 0x202f || n == 0x205f || n == 0x3000

/-- `"".join(s.split())`: every white-space character is dropped (since the K54 repair; before, only blank, newline and tab
    were, so a carriage return inside an operand list became part of a net name) -/
def squeeze (s : String) : String := String.ofList (s.toList.filter (fun c => !pySpace c))

def lower (s : String) : String := String.ofList (s.toList.map Char.toLower)
def upper (s : String) : String := String.ofList (s.toList.map Char.toUpper)

/-- one parsed statement of the bench dialect -/
inductive Stmt where
  | input (n : Name)
  | gate (net : Name) (ty : String) (ins : List Name)
  | dffNet (net : Name)                       -- first pass over the DFF lines: create the Q nets
  | dff (net : Name) (d : Name)               -- second pass: the flop itself
  | output (n : Name)
deriving Repr, Inhabited, DecidableEq

/-- `"\n".join(line.split("#", 1)[0] for line in netlist.split("\n"))`: a `#` starts a comment that runs to the end of
    the line (fix K45: the reader used to honour `#OUTPUT(a)` and the writer's own `# <name>` header) -/
def stripComments (s : String) : String :=
  "\n".intercalate ((s.splitOn "\n").map (fun l => (l.splitOn "#").headD ""))

/-- the four regex passes (over the text without its comments): statements in the order the reader processes them -/
def parse (text0 : String) : Option (List Stmt) := do
  let text := stripComments text0
  let ins ← Regex.findall (rx 0).1 text (rx 0).2
  let gates ← Regex.findall (rx 1).1 text (rx 1).2
  let dffs ← Regex.findall (rx 2).1 text (rx 2).2
  let outs ← Regex.findall (rx 3).1 text (rx 3).2
  pure (
    ins.flatMap (fun g => ((squeeze (g.getD 0 "")).splitOn ",").map Stmt.input) ++
    gates.map (fun g =>
      let gate := g.getD 1 ""
      let ty := if gate == "buff" || gate == "BUFF" then "buf" else lower gate
      Stmt.gate (g.getD 0 "") ty ((squeeze (g.getD 2 "")).splitOn ",")) ++
    dffs.map (fun g => Stmt.dffNet (g.getD 0 "")) ++
    dffs.map (fun g => Stmt.dff (g.getD 0 "") (squeeze (g.getD 2 ""))) ++
    outs.flatMap (fun g => ((squeeze (g.getD 0 "")).splitOn ",").map Stmt.output))

def dffBB : BBox := { name := "dff", ins := ["D"], outs := ["Q"] }

/-- a gate's fan-in is a set: in a parity gate an operand given an even number of times cancels (fix K35); if every
    operand cancels the net is the constant 0 (XOR) / 1 (XNOR) -/
def parityGate (ty : String) (ins : List Name) : String × List Name :=
  if (ty == "xor" || ty == "xnor") && (dedup ins).length < ins.length then
    let r := (dedup ins).filter (fun p => ins.count p % 2 == 1)
    if r.isEmpty then (if ty == "xor" then "0" else "1", []) else (ty, r)
  else (ty, ins)

/-- the API calls made for one statement -/
def build1 (c : Circuit) : Stmt → E Circuit
  | .input n => Tx.addC c { n := n, ty := "input" }
  | .gate net ty ins =>
    let g := parityGate ty ins
    Tx.addC c { n := net, ty := g.1, fanin := g.2, addConnected := true, allowRedef := true }
  | .dffNet net => Tx.addC c { n := net, ty := "buf", allowRedef := true }
  | .dff net d =>
    liftO (c.addBlackbox dffBB (net ++ "_dff") [("D", if d.isEmpty then [] else [d]), ("Q", if net.isEmpty then [] else [net])] id)
  | .output n => liftO (c.setOutput [n] true)

def build (name : String) (stmts : List Stmt) : E Circuit :=
  stmts.foldlM build1 ({ name := if name.isEmpty then "circuit" else name } : Circuit)

/-- `io.bench_to_circuit(netlist, name)` -/
def read (text name : String) : E Circuit :=
  match parse text with
  | none => .error (.other "regex")
  | some stmts => build name stmts

/-- the statements `circuit_to_bench` emits, in emission order: gate lines only (constants are built from the first
    input and its complement, created lazily at the first constant) -/
def toGateStmts (c : Circuit) (ord : Ord) : E (List Stmt) :=
  if !c.bbs.isEmpty then .error .valueError else
  if c.nodes.any (fun p => p.2.ty.isNone) then .error .keyError else
  match ord c.inputs with
  | [] => .error .keyError        -- `c.inputs().pop()` on an empty set
  | constInp :: _ =>
    (ord (c.nodeNames.filter (fun n => !c.inputs.contains n))).foldlM (fun (st : List Stmt × Option Name) n =>
      match c.ty? n with
      | none => .error .keyError
      | some t =>
        if T.primitive.contains t then .ok (st.1 ++ [Stmt.gate n t (ord (c.fanin n))], st.2)
        else if t == "0" || t == "1" then
          (match st.2 with
           | some inv => .ok (([] : List Stmt), inv)
           | none => match c.uid (constInp ++ "_inv") with
             | some inv => .ok ([Stmt.gate inv "not" [constInp]], inv)
             | none => .error .fuel) >>= fun r =>
          .ok (st.1 ++ r.1 ++ [Stmt.gate n (if t == "0" then "and" else "or") [constInp, r.2]], some r.2)
        else .error .valueError) ([], none) >>= fun st => pure st.1

/-- all statements of the written netlist, in the order the *reader* will process them (its four regex passes) -/
def toStmts (c : Circuit) (ord : Ord) : E (List Stmt) :=
  toGateStmts c ord >>= fun gs =>
  pure ((ord c.inputs).map Stmt.input ++ gs ++ (ord c.outputs).map Stmt.output)

def renderStmt : Stmt → String
  | .input n => "INPUT(" ++ n ++ ")"
  | .output n => "OUTPUT(" ++ n ++ ")"
  | .gate n t ins => n ++ " = " ++ upper t ++ "(" ++ ", ".intercalate ins ++ ")"
  | .dffNet _ => ""
  | .dff q d => q ++ " = DFF(" ++ d ++ ")"

/-- `io.circuit_to_bench(c)` -/
def write (c : Circuit) (ord : Ord) : E String :=
  toGateStmts c ord >>= fun gs =>
  pure ("# " ++ c.name ++ "\n" ++
    String.join ((ord c.inputs).map (fun i => renderStmt (.input i) ++ "\n")) ++ "\n" ++
    String.join ((ord c.outputs).map (fun o => renderStmt (.output o) ++ "\n")) ++ "\n" ++
    "\n".intercalate (gs.map renderStmt))

end Bench
end CG
