/-
  CG.Spec — specification vocabulary shared by the property files: order hypotheses, structural
  well-formedness (what `lint` with default flags accepts, stated order-free), acyclicity and the
  refinement relation every function-preserving transform is stated against.
-/
import CG.Sem
import CG.Tables
namespace CG

/-- every set-iteration order: any function that permutes its argument -/
def OrdOK (ord : Ord) : Prop := ∀ l, (ord l).Perm l

/-- graph-level sanity of the list representation -/
structure WF (c : Circuit) : Prop where
  nodup : c.nodeNames.Nodup
  edgesNodup : c.edges.Nodup
  closed : ∀ e ∈ c.edges, c.has e.1 = true ∧ c.has e.2 = true

def sourceTypes : List String := ["input", "0", "1", "x", "bb_output"]
def singleTypes : List String := ["buf", "not", "bb_input"]
def multiTypes : List String := ["and", "nand", "or", "nor", "xor", "xnor"]

/-- lint-clean with default flags (undriven=True), stated without reference to the linter -/
structure LintClean (c : Circuit) : Prop extends WF c where
  typed : ∀ p ∈ c.nodes, ∃ t, p.2.ty = some t ∧ t ∈ Expected.supported_types
  noFanin : ∀ n t, c.ty? n = some t → t ∈ sourceTypes → c.fanin n = []
  single : ∀ n t, c.ty? n = some t → t ∈ singleTypes → (c.fanin n).length = 1
  multi : ∀ n t, c.ty? n = some t → t ∈ multiTypes → 1 ≤ (c.fanin n).length
  bbOut : ∀ e ∈ c.edges, c.ty? e.1 = some "bb_output" → c.ty? e.2 = some "buf" ∧ (c.fanout e.1).length ≤ 1
  noBBInFanout : ∀ e ∈ c.edges, c.ty? e.1 ≠ some "bb_input"

def Acyclic (c : Circuit) : Prop := ∃ rank : Name → Nat, ∀ e ∈ c.edges, rank e.1 < rank e.2

/-- `c'` computes, on the nodes of `c` (renamed by `ρ`), exactly what `c` computes:
    every consistent valuation of `c'` restricts to one of `c`, and every consistent valuation of `c`
    extends to one of `c'`. -/
def Refines (c c' : Circuit) (ρ : Name → Name) : Prop :=
  (∀ v', Consistent c' v' → Consistent c (fun n => v' (ρ n))) ∧
  (∀ v, Consistent c v → ∃ v', Consistent c' v' ∧ ∀ n, c.has n = true → v' (ρ n) = v n)

end CG
