/-
  CG.Sem — Boolean semantics of circuits.

  `gateFn t ins` is the value a node of type `t` must take given the values of its fan-in
  (`none` = unconstrained: inputs, blackbox outputs, undriven buf/not/bb_input, `x`).
  `Consistent c v` is the single statement language for "v is a valuation of circuit c":
  it also covers cyclic circuits (stable states), blackboxes and free nets.
-/
import CG.Basic
namespace CG

abbrev Val := Name → Bool

/-- parity of a list of Booleans -/
def xorL : List Bool → Bool
  | [] => false
  | b :: bs => Bool.xor b (xorL bs)

def gateFn (t : String) (ins : List Bool) : Option Bool :=
  if t = "and" then some (ins.all id)
  else if t = "nand" then some (!ins.all id)
  else if t = "or" then some (ins.any id)
  else if t = "nor" then some (!ins.any id)
  else if t = "xor" then some (xorL ins)
  else if t = "xnor" then some (!xorL ins)
  else if t = "buf" ∨ t = "bb_input" then (match ins with | [a] => some a | _ => none)
  else if t = "not" then (match ins with | [a] => some (!a) | _ => none)
  else if t = "0" then some false
  else if t = "1" then some true
  else none

/-- `v` satisfies the equation of node `n` (type `t`) in circuit `c`. -/
def NodeOK (c : Circuit) (v : Val) (n : Name) (t : String) : Prop :=
  ∀ b, gateFn t ((c.fanin n).map v) = some b → v n = b

def Consistent (c : Circuit) (v : Val) : Prop :=
  ∀ p ∈ c.nodes, ∀ t, p.2.ty = some t → NodeOK c v p.1 t

def nodeOKB (c : Circuit) (v : Val) (n : Name) (t : String) : Bool :=
  match gateFn t ((c.fanin n).map v) with
  | some b => v n == b
  | none => true

def consistentB (c : Circuit) (v : Val) : Bool :=
  c.nodes.all (fun p => match p.2.ty with | some t => nodeOKB c v p.1 t | none => true)

/-- environment-based evaluation along a given node order (a topological order for DAGs) -/
def envVal (env : List (Name × Bool)) (free : Val) (n : Name) : Bool :=
  match env.lookup n with
  | some b => b
  | none => free n

def evalStep (c : Circuit) (free : Val) (env : List (Name × Bool)) (n : Name) : List (Name × Bool) :=
  let ins := (c.fanin n).map (envVal env free)
  let b := match c.ty? n with
    | some t => (match gateFn t ins with | some b => b | none => free n)
    | none => free n
  (n, b) :: env

def evalEnv (c : Circuit) (order : List Name) (free : Val) : List (Name × Bool) :=
  order.foldl (evalStep c free) []

def eval (c : Circuit) (order : List Name) (free : Val) : Val :=
  envVal (evalEnv c order free) free

/-! Kleene three-valued simulation (C10). `T3.x` is the unknown. -/
inductive T3 where | f | t | x
deriving DecidableEq, Repr, Inhabited

namespace T3
def ofBool : Bool → T3 | true => t | false => f
def not3 : T3 → T3 | f => t | t => f | x => x
def and3 : T3 → T3 → T3
  | f, _ => f | _, f => f | t, t => t | _, _ => x
def or3 : T3 → T3 → T3
  | t, _ => t | _, t => t | f, f => f | _, _ => x
def xor3 : T3 → T3 → T3
  | x, _ => x | _, x => x | a, b => if a = b then f else t
def andL (l : List T3) : T3 := l.foldr and3 t
def orL (l : List T3) : T3 := l.foldr or3 f
def xor3L (l : List T3) : T3 := l.foldr xor3 f
end T3

/-- Kleene gate function; `none` = free node (value supplied from outside). -/
def gateFn3 (t : String) (ins : List T3) : Option T3 :=
  if t = "and" then some (T3.andL ins)
  else if t = "nand" then some (T3.andL ins).not3
  else if t = "or" then some (T3.orL ins)
  else if t = "nor" then some (T3.orL ins).not3
  else if t = "xor" then some (T3.xor3L ins)
  else if t = "xnor" then some (T3.xor3L ins).not3
  else if t = "buf" ∨ t = "bb_input" then (match ins with | [a] => some a | _ => none)
  else if t = "not" then (match ins with | [a] => some a.not3 | _ => none)
  else if t = "0" then some T3.f
  else if t = "1" then some T3.t
  else none

end CG
