/-
  CG.OwnSem — concrete heap semantics of the ownership IR (CG.Own), the reference for C19's soundness theorem.
  Objects are sets of heap cells; every write bumps a per-cell version counter; allocation hands out cells that no
  variable can reach.  Conditions are not interpreted (either branch, any number of loop iterations), a library call
  behaves in any way its summary allows.
-/
import CG.Own
namespace CG
namespace Own

abbrev Cell := Nat

structure CState where
  env : List (Var × List Cell)        -- cells reachable from each variable (unbound = no cells)
  ver : Cell → Nat                    -- bumped by every write to the cell
  next : Cell                         -- every cell ≥ next is unallocated
deriving Inhabited

def CState.cells (st : CState) (x : Var) : List Cell := (st.env.lookup x).getD []
def CState.bind (st : CState) (x : Var) (cs : List Cell) : CState :=
  { st with env := (x, cs) :: st.env.filter (fun p => p.1 != x) }

/-- `st'` differs from `st` only by bumped versions of cells in `ws` -/
def Wrote (ws : List Cell) (st st' : CState) : Prop :=
  st'.env = st.env ∧ st'.next = st.next ∧ ∀ c, c ∉ ws → st'.ver c = st.ver c

/-- evaluation of a right-hand side: the cells of the value, and the state after (allocation / callee effects) -/
inductive EvalRhs (s : Sums) : Rhs → CState → List Cell → CState → Prop where
  | pure (st) : EvalRhs s .pure st [] st
  | alias (x st) : EvalRhs s (.alias x) st (st.cells x) st
  | fresh (st) : EvalRhs s .fresh st [st.next] { st with next := st.next + 1 }
  | build (parts st) (k : Nat) :
      -- the new object shares the cells of its parts and may own k new cells
      EvalRhs s (.build parts) st (parts.flatMap st.cells ++ (List.range k).map (· + st.next)) { st with next := st.next + k }
  | call (f args st st1) (ws res : List Cell) (k : Nat) :
      -- the callee may write to argument cells only if its summary says so …
      (∀ c ∈ ws, c ∈ args.flatMap st.cells ∧ (sumOf s f).mutates = true) →
      Wrote ws st st1 →
      -- … and its result consists of new cells, plus argument cells only if its summary says so
      (∀ c ∈ res, (st.next ≤ c ∧ c < st.next + k) ∨ (c ∈ args.flatMap st.cells ∧ (sumOf s f).aliases = true)) →
      EvalRhs s (.call f args) st res { st1 with next := st.next + k }

inductive Out where
  | normal (st : CState)
  | returned (cs : List Cell) (st : CState)
  | raised (st : CState)

def Out.state : Out → CState
  | .normal st | .returned _ st | .raised st => st

inductive Exec (s : Sums) : Stmt → CState → Out → Prop where
  | skip (st) : Exec s .skip st (.normal st)
  | assign (x r st cs st1) : EvalRhs s r st cs st1 → Exec s (.assign x r) st (.normal (st1.bind x cs))
  | mutate (x st st1) (ws : List Cell) : (∀ c ∈ ws, c ∈ st.cells x) → Wrote ws st st1 → Exec s (.mutate x) st (.normal st1)
  | exec (f args st cs st1) : EvalRhs s (.call f args) st cs st1 → Exec s (.exec f args) st (.normal st1)
  | seqN (a b st st1 o) : Exec s a st (.normal st1) → Exec s b st1 o → Exec s (.seq a b) st o
  | seqRet (a b st cs st1) : Exec s a st (.returned cs st1) → Exec s (.seq a b) st (.returned cs st1)
  | seqRaise (a b st st1) : Exec s a st (.raised st1) → Exec s (.seq a b) st (.raised st1)
  | iteL (a b st o) : Exec s a st o → Exec s (.ite a b) st o
  | iteR (a b st o) : Exec s b st o → Exec s (.ite a b) st o
  | loopDone (body st) : Exec s (.loop body) st (.normal st)
  | loopStep (body st st1 o) : Exec s body st (.normal st1) → Exec s (.loop body) st1 o → Exec s (.loop body) st o
  | loopRet (body st cs st1) : Exec s body st (.returned cs st1) → Exec s (.loop body) st (.returned cs st1)
  | loopRaise (body st st1) : Exec s body st (.raised st1) → Exec s (.loop body) st (.raised st1)
  | ret (r st cs st1) : EvalRhs s r st cs st1 → Exec s (.ret r) st (.returned cs st1)
  | raise (st) : Exec s .raise st (.raised st)
  /-- any statement may also be interrupted by an exception -/
  | abort (stmt st) : Exec s stmt st (.raised st)

/-- an entry state: each circuit parameter owns some allocated cells, nothing else is bound -/
def Entry (f : Fn) (st : CState) : Prop :=
  (∀ p ∈ st.env, p.1 ∈ f.params) ∧ (∀ x, ∀ c ∈ st.cells x, c < st.next)

def paramCells (f : Fn) (st : CState) : List Cell := f.params.flatMap st.cells

end Own
end CG
