/-
  CG.Tx2 — the sensitivity transforms of tx.py and the analyses of props.py built on them, as coded.
-/
import CG.Tx
import CG.Logic
import CG.Query
import CG.Sat
namespace CG
namespace Tx
open Query

/-- `c.graph.subgraph(nodes).copy()` wrapped in a fresh `Circuit` (name "circuit", no blackboxes) -/
def inducedSub (c : Circuit) (keep : List Name) : Circuit :=
  { name := "circuit",
    nodes := c.nodes.filter (fun p => keep.contains p.1),
    edges := c.edges.filter (fun e => keep.contains e.1 && keep.contains e.2) }

/-- `tx.sensitization_transform(c, n, endpoints)`; `endpoints = []` is the falsy default.
    The result's *name* with several endpoints depends on a plain-set hash order and is not modelled. -/
def sensitizationTransform (c : Circuit) (n : Name) (endpoints : List Name) (ord : Ord)
    (ordE : List (Name × Name) → List (Name × Name)) : E Circuit :=
  if !c.bbs.isEmpty then .error .valueError else
  (if endpoints.isEmpty then pure (c, c.name ++ "_sensitize_" ++ n)
   else
    match transitiveFanin c endpoints with
    | .error e => .error e
    | .ok fi =>
      if !fi.contains n && !endpoints.contains n then .error .valueError else
      subcircuit c (ord (dedup (endpoints ++ fi))) false ordE >>= fun subc =>
      let subc := subc.nodeNames.foldl (fun acc x => acc.setOutRaw x (endpoints.contains x)) subc
      pure (subc, c.name ++ "_sensitize_" ++ n ++ "_to_" ++ "_".intercalate endpoints)) >>= fun r =>
  miter r.1 none none none ord >>= fun m =>
  let m := { m with name := r.2 }
  let c1n := "c1_" ++ n
  if !m.has c1n then .error .nxError else
  let m1 := m.disconnect (m.fanin c1n) [c1n]
  liftO (m1.setType [c1n] "not") >>= fun m2 =>
  liftO (m2.connect ["c0_" ++ n] [c1n])

/-- wiring of one inverted copy in `sensitivity_transform` -/
def senCopy (subC : Circuit) (sp : List Name) (n : Name) (s : Circuit) (is0 : Nat × Name) : E Circuit :=
  let i := is0.1
  let s0 := is0.2
  liftO (s.addSubcircuit subC ("inv_" ++ s0) []) >>= fun s1 =>
  sp.foldlM (fun acc s1n =>
      if s0 != s1n then liftO (acc.connect [s1n] ["inv_" ++ s0 ++ "_" ++ s1n])
      else liftO (acc.setType ["inv_" ++ s0 ++ "_" ++ s1n] "not") >>= fun a =>
           liftO (a.connect [s0] ["inv_" ++ s0 ++ "_" ++ s1n])) s1 >>= fun s2 =>
  addC s2 { n := "dif_out_" ++ s0, ty := "xor", fanin := ["orig_" ++ n, "inv_" ++ s0 ++ "_" ++ n],
            fanout := ["pc_in_" ++ toString i], output := true }

/-- `tx.sensitivity_transform(c, n)` -/
def sensitivityTransform (c : Circuit) (n : Name) (ord : Ord) : E Circuit :=
  if !c.bbs.isEmpty then .error .valueError else
  (match startpoints c [n] with | .ok l => pure (ord l) | .error e => .error e) >>= fun sp =>
  if sp.length < 1 then .error .valueError else
  (match transitiveFanin c [n] with | .ok l => pure l | .error e => .error e) >>= fun tfi =>
  let subC := inducedSub c (n :: tfi)
  liftO (({} : Circuit).addSubcircuit subC "orig" []) >>= fun sen =>
  sp.foldlM (fun acc s => addC acc { n := s, ty := "input", fanout := ["orig_" ++ s] }) sen >>= fun sen =>
  Logic.popcount sp.length >>= fun pc =>
  liftO (sen.addSubcircuit pc "pc" []) >>= fun sen =>
  (sp.zipIdx.map (fun p => (p.2, p.1))).foldlM (senCopy subC sp n) sen >>= fun sen =>
  Logic.clog2 (sp.length + 1) >>= fun k =>
  (List.range k).foldlM (fun acc o =>
    addC acc { n := "sen_out_" ++ toString o, ty := "buf", fanin := ["pc_out_" ++ toString o], output := true }) sen

end Tx

namespace Props

/-- `props.sensitize(c, n, assumptions)`: a sensitizing valuation of the startpoints, or None -/
def sensitize (s : Solver) (c : Circuit) (n : Name) (as : List (Name × Bool)) (ord : Ord)
    (ordE : List (Name × Name) → List (Name × Name)) : Except Outcome (Option (List (Name × Bool))) :=
  match Tx.sensitizationTransform c n [] ord ordE with
  | .error e => .error e
  | .ok m =>
    match solve s m ord (("sat", true) :: as) with
    | .error e => .error e
    | .ok none => .ok none
    | .ok (some v) => .ok (some ((ord m.startpointsAll).map (fun g => (g, v g))))

/-- the descending search of `props.sensitivity(c, n)` -/
def sensitivityGo (s : Solver) (sen : Circuit) (ord : Ord) (w : Nat) : Nat → Nat → Except Outcome Nat
  | 0, _ => .error .fuel
  | fuel + 1, k =>
    let vs := Logic.intToBin k w true
    match solve s sen ord (vs.zipIdx.map (fun p => ("sen_out_" ++ toString p.2, p.1))) with
    | .error e => .error e
    | .ok (some _) => .ok k
    | .ok none => if k = 0 then .error (.other "negative") else sensitivityGo s sen ord w fuel (k - 1)

def sensitivity (s : Solver) (c : Circuit) (n : Name) (ord : Ord) : Except Outcome Nat :=
  match Query.startpoints c [n] with
  | .error e => .error e
  | .ok sp =>
    if sp.contains n then .ok 1 else
    match Tx.sensitivityTransform c n ord, Logic.clog2 sp.length with
    | .ok sen, .ok w => sensitivityGo s sen ord w (sp.length + 2) sp.length
    | .error e, _ => .error e
    | _, .error e => .error e

/-- exact-mode `props.influence(c, n)` for one node: per startpoint the pair (count, number of startpoints);
    the code returns count / 2^k -/
def influence (s : Solver) (c : Circuit) (n : Name) (ord : Ord)
    (ordE : List (Name × Name) → List (Name × Name)) : Except Outcome (List (Name × Nat × Nat)) :=
  match Query.startpoints c [n] with
  | .error e => .error e
  | .ok sp0 =>
    let sp := ord sp0
    sp.mapM (fun sx =>
      match Tx.sensitizationTransform c sx [n] ord ordE with
      | .error e => .error e
      | .ok m => match modelCount s m ord [("sat", true)] with
        | .error e => .error e
        | .ok cnt => .ok (sx, cnt, sp.length))

/-- exact-mode `props.avg_sensitivity(c, n)` for one node: the sum of the influences, as the pair
    (sum of the counts, number of startpoints); the code returns the sum of the quotients count / 2^k -/
def avgSensitivity (s : Solver) (c : Circuit) (n : Name) (ord : Ord)
    (ordE : List (Name × Name) → List (Name × Name)) : Except Outcome (Nat × Nat) :=
  match influence s c n ord ordE with
  | .error e => .error e
  | .ok r => .ok ((r.map (·.2.1)).sum, r.length)

end Props
end CG
