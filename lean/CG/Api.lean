/-
  CG.Api — the construction API as one `step` function over an `Op` type (what C07 quantifies over).
  The driver executes histories through this very function.
-/
import CG.Ops
namespace CG

inductive Op where
  | add (a : Circuit.AddArgs)
  | connect (us vs : List Name)
  | disconnect (us vs : List Name)
  | remove (ns : List Name)
  | setOutput (ns : List Name) (b : Bool)
  | addBlackbox (bb : BBox) (inst : Name) (conns : List (Name × List Name))
  | addSubcircuit (sc : Circuit) (name : Name) (conns : List (Name × List Name))
  | fillBlackbox (inst : Name) (sc : Circuit)
deriving Repr, Inhabited

/-- one API call: new state and exception class (`.ok` = returned normally) -/
def step (ord : Ord) (c : Circuit) : Op → Circuit × Outcome
  | .add a => let r := c.add a; (r.1, r.2.1)
  | .connect us vs => c.connect us vs
  | .disconnect us vs => (c.disconnect us vs, .ok)
  | .remove ns => (c.remove ns, .ok)
  | .setOutput ns b => c.setOutput ns b
  | .addBlackbox bb inst conns => c.addBlackbox bb inst conns ord
  | .addSubcircuit sc name conns => c.addSubcircuit sc name conns true
  | .fillBlackbox inst sc => c.fillBlackbox inst sc ord

/-- pin nodes the caller itself removed (ghost state of the statement's exemption) -/
def goneAfter (gone : List Name) : Op → List Name
  | .remove ns => gone ++ ns
  | _ => gone

/-- run a history; returns the final circuit and the ghost set -/
def run (ord : Ord) : Circuit → List Name → List Op → Circuit × List Name
  | c, gone, [] => (c, gone)
  | c, gone, op :: ops => run ord (step ord c op).1 (goneAfter gone op) ops

end CG
