/-
  CG.Dpll — a concrete, complete SAT solver (DPLL with unit preference) for the object-level CNF of CG.Sat.

  Two uses: (1) it is an instance of the solver contract `SolverSpec` that the solver-based theorems assume
  (`CG.Proofs.DpllP.dpll_spec`), so those hypotheses are satisfiable; (2) the driver runs the models of
  `solve` / `model_count` / `sensitize` / `sensitivity` / `influence` with it, so that their results can be compared
  with the real functions (which run pysat, or its stand-in) in the correspondence check.
-/
import CG.Sat
namespace CG
namespace Dpll

/-- simplify `f` under `v := b`: drop the clauses `v := b` satisfies, delete the literals it falsifies -/
def assign (f : CNF) (v : Var) (b : Bool) : CNF :=
  (f.filter (fun cl => !cl.any (fun l => l.v == v && l.pos == b))).map (fun cl => cl.filter (fun l => !(l.v == v)))

/-- the literal to branch on: the literal of a unit clause if there is one, else the first literal of the formula -/
def pick (f : CNF) : Option Lit :=
  match f.find? (fun cl => cl.length == 1) with
  | some (l :: _) => some l
  | _ => match f with
    | (l :: _) :: _ => some l
    | _ => none

/-- distinct variables of a formula -/
def vars (f : CNF) : List Var := dedupVars (f.flatMap (·.map (·.v)))

def go : Nat → CNF → List (Var × Bool) → Option (List (Var × Bool))
  | 0, f, acc => if f.isEmpty then some acc else none
  | fuel + 1, f, acc =>
    if f.isEmpty then some acc
    else if f.any (·.isEmpty) then none
    else match pick f with
      | none => none
      | some l =>
        match go fuel (assign f l.v l.pos) ((l.v, l.pos) :: acc) with
        | some r => some r
        | none => go fuel (assign f l.v (!l.pos)) ((l.v, !l.pos) :: acc)

/-- the solver: `none` = UNSAT, `some σ` = a model (variables not decided read False) -/
def dpll : Solver := fun f =>
  (go (vars f).length f []).map (fun a v => (a.lookup v).getD false)

end Dpll
end CG
