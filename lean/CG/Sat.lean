/-
  CG.Sat — `sat.cnf` (Tseitin encoding) following sat.py line by line.

  Variables are the *objects* handed to pysat's `IDPool`: circuit node names and the auxiliary
  keys of the parity chains.  After the K1 fix these keys are tuples `("xor", a, b)` /
  `("xor_inv", n)`, modelled by the constructors `xorAux` / `xorInv`, so an auxiliary can never
  alias a circuit node.  The numeric CNF is the object-level CNF under the first-come numbering of
  `IDPool` (`numbering`).  Clause templates per gate type come from `CG.Generated` (`T.cnf`).
-/
import CG.Ops
import CG.Sem
namespace CG

inductive Var where
  | node (s : Name)
  | xorAux (a b : Var)
  | xorInv (s : Name)
deriving DecidableEq, Repr, Inhabited

structure Lit where
  pos : Bool
  v : Var
deriving DecidableEq, Repr, Inhabited

abbrev Clause := List Lit
abbrev CNF := List Clause

def Lit.sat (σ : Var → Bool) (l : Lit) : Bool := if l.pos then σ l.v else !σ l.v
def Clause.sat (σ : Var → Bool) (cl : Clause) : Bool := cl.any (Lit.sat σ)
def CNF.sat (σ : Var → Bool) (f : CNF) : Bool := f.all (Clause.sat σ)

/-- instantiate a clause template: `n` the node, `f` the loop/popped fan-in, `fs` the whole fan-in,
    `a b c` the operands of the XOR helper, `inv` the inverter key -/
structure TEnv where
  n : Var
  f : Var
  fs : List Var
  a : Var
  b : Var
  c : Var
  inv : Var

def TEnv.get (e : TEnv) : TVar → Var
  | .n => e.n | .f => e.f | .a => e.a | .b => e.b | .c => e.c | .inv => e.inv

def instClause (e : TEnv) (cl : TClause) : Clause :=
  cl.flatMap (fun it => match it with
    | .lit pos v => [{ pos := pos, v := e.get v }]
    | .allF pos => e.fs.map (fun f => { pos := pos, v := f }))

def instStmt (e : TEnv) : TStmt → List Clause
  | .each cl => e.fs.map (fun f => instClause { e with f := f } cl)
  | .one cl => [instClause e cl]
  | .guard cl => match e.fs with
    | [] => []
    | f :: _ => [instClause { e with f := f } cl]
  | .orElse cl => match e.fs with
    | [] => [instClause e cl]
    | _ :: _ => []

/-- the four clauses of `xor_clauses(a, b, c)` -/
def xorClauses (a b c : Var) : List Clause :=
  let e : TEnv := { n := c, f := c, fs := [], a := a, b := b, c := c, inv := c }
  T.cnf.xorClauses.map (instClause e)

/-- the `while len(nets) > 2` loop: returns the emitted clauses and the final nets -/
def xorChain : Nat → List Var → List Clause × List Var
  | 0, nets => ([], nets)
  | fuel + 1, nets =>
    if nets.length > 2 then
      let a := nets[nets.length - 2]!
      let b := nets[nets.length - 1]!
      let new := Var.xorAux a b
      let (cls, fin) := xorChain fuel (new :: nets.take (nets.length - 2))
      (xorClauses a b new ++ cls, fin)
    else ([], nets)

/-- clauses emitted for one node (after `variables.id(n)`), or the exception raised -/
def cnfNode (c : Circuit) (ord : Ord) (n : Name) : Except Outcome (List Clause) :=
  match c.ty? n with
  | none => .error .keyError
  | some t0 =>
    let fi := ord (c.fanin n)
    let t := if fi.length == 1 then
        (match T.cnf.demote.find? (fun d => d.1.contains t0) with | some d => d.2 | none => t0)
      else t0
    let fs := fi.map Var.node
    let e : TEnv := { n := .node n, f := .node n, fs := fs, a := .node n, b := .node n, c := .node n,
                      inv := .xorInv n }
    match T.cnf.gates.find? (fun g => g.1.contains t) with
    | some g => .ok (g.2.flatMap (instStmt e))
    | none =>
      if T.cnf.xorTypes.contains t then
        let (cls, nets) := xorChain fs.length fs
        if nets.length < 2 then .error .indexError else
        let a := nets[nets.length - 2]!
        let b := nets[nets.length - 1]!
        if T.cnf.xorDirect.contains t then .ok (cls ++ xorClauses a b (.node n))
        else .ok (cls ++ xorClauses a b (.xorInv n) ++ T.cnf.invClauses.map (instClause e))
      else .error .valueError

/-- `sat.cnf(c)`: per node (in set order) the node's own id call, then its clauses -/
def cnfGo (c : Circuit) (ord : Ord) : List Name → Except Outcome (List (Name × List Clause))
  | [] => .ok []
  | n :: ns => do
    let cls ← cnfNode c ord n
    let rest ← cnfGo c ord ns
    pure ((n, cls) :: rest)

def cnf (c : Circuit) (ord : Ord) : Except Outcome CNF :=
  (cnfGo c ord (ord c.nodeNames)).map (fun l => l.flatMap (·.2))

/-- the sequence of `IDPool.id` calls, in order: for each node its own key, then its clauses' literals -/
def idCalls (c : Circuit) (ord : Ord) : Except Outcome (List Var) :=
  (cnfGo c ord (ord c.nodeNames)).map (fun l => l.flatMap (fun p => Var.node p.1 :: p.2.flatMap (·.map (·.v))))

def dedupVars : List Var → List Var
  | [] => []
  | x :: xs => x :: (dedupVars xs).filter (fun y => !(y == x))

/-- first-come numbering from 1 -/
def numbering (pool : List Var) (v : Var) : Nat := pool.idxOf v + 1

/-- `add_assumptions` -/
def assumptionClauses (as : List (Name × Bool)) : CNF :=
  as.map (fun p => [{ pos := p.2, v := .node p.1 }])

end CG

namespace CG

/-- an abstract SAT solver: `none` = UNSAT, `some σ` = a model -/
abbrev Solver := CNF → Option (Var → Bool)

/-- the contract assumed of the external solver (pysat/cadical): sound and complete -/
structure SolverSpec (s : Solver) : Prop where
  sound : ∀ f σ, s f = some σ → CNF.sat σ f = true
  complete : ∀ f, s f = none → ∀ σ, CNF.sat σ f = false

/-- `sat.solve(c, assumptions)`: `cnf` first, then the assumption keys are checked (ValueError), then the
    solver runs on formula + unit clauses; the model is read back on circuit nodes only -/
def solve (s : Solver) (c : Circuit) (ord : Ord) (as : List (Name × Bool)) : Except Outcome (Option Val) :=
  match cnf c ord with
  | .error e => .error e
  | .ok f =>
    if as.any (fun p => !c.has p.1) then .error .valueError
    else match s (f ++ assumptionClauses as) with
      | none => .ok none
      | some σ => .ok (some (fun n => σ (.node n)))

end CG

namespace CG

/-- the blocking clause `[-model[id(n) - 1] for n in startpoints]` -/
def blockingClause (σ : Var → Bool) (sp : List Name) : Clause :=
  sp.map (fun n => { pos := !σ (.node n), v := .node n })

/-- the `while solver.solve()` loop of `model_count` -/
def modelCountGo (s : Solver) (sp : List Name) : Nat → CNF → Nat → Option Nat
  | 0, _, _ => none
  | fuel + 1, f, count =>
    match s f with
    | none => some count
    | some σ => modelCountGo s sp fuel (f ++ [blockingClause σ sp]) (count + 1)

/-- `sat.model_count(c, assumptions)`; `ord` also enumerates `c.startpoints()` -/
def modelCount (s : Solver) (c : Circuit) (ord : Ord) (as : List (Name × Bool)) : Except Outcome Nat :=
  if c.nodes.any (fun p => p.2.ty.isNone) then .error .keyError else
  match cnf c ord with
  | .error e => .error e
  | .ok f =>
    if as.any (fun p => !c.has p.1) then .error .valueError
    else
      let sp := ord c.startpointsAll
      match modelCountGo s sp (2 ^ sp.length + 1) (f ++ assumptionClauses as) 0 with
      | some n => .ok n
      | none => .error .fuel

/-- numeric literal under the pool numbering -/
def litNum (pool : List Var) (l : Lit) : Int :=
  if l.pos then (numbering pool l.v : Int) else -(numbering pool l.v : Int)

/-- the DIMACS text `approx_model_count` writes in its default (plain-clause) mode -/
def dimacs (c : Circuit) (ord : Ord) (as : List (Name × Bool)) (sp : List Name) : Except Outcome String :=
  match cnf c ord, idCalls c ord with
  | .ok f0, .ok calls =>
    if as.any (fun p => !c.has p.1) then .error .valueError else
    let f := f0 ++ assumptionClauses as
    let pool := dedupVars (calls ++ (assumptionClauses as).flatMap (·.map (·.v)))
    let nv := (f.flatMap (·.map (fun l => numbering pool l.v))).foldl max 0
    let encInps := " ".intercalate (sp.map (fun n => toString (numbering pool (.node n))))
    let clauseStr := "\n".intercalate (f.map (fun cl => " ".intercalate (cl.map (fun l => toString (litNum pool l))) ++ " 0"))
    .ok ("c ind " ++ encInps ++ " 0\np cnf " ++ toString nv ++ " " ++ toString f.length ++ "\n" ++ clauseStr ++ "\n")
  | .error e, _ => .error e
  | _, .error e => .error e

end CG

namespace CG

/-- `props.signal_probability(c, n, approx=False)` as the exact pair (count, number of startpoints of the cone):
    the value returned by the code is `count / 2 ^ k`.  `cone` = `{n} | c.transitive_fanin(n)` in iteration order. -/
def signalProbability (s : Solver) (sub : Circuit) (n : Name) (ord : Ord) : Except Outcome (Nat × Nat) :=
  match modelCount s sub ord [(n, true)] with
  | .error e => .error e
  | .ok cnt => .ok (cnt, sub.startpointsAll.length)

end CG
