/-
  CG.Kleene — gate-by-gate Kleene (three-valued) evaluation along a node order, the reference
  semantics of C10.  `pat` gives the value of free nodes (inputs).
-/
import CG.Sem
namespace CG

def envVal3 (env : List (Name × T3)) (pat : Name → T3) (n : Name) : T3 :=
  match env.lookup n with
  | some b => b
  | none => pat n

def evalStep3 (c : Circuit) (pat : Name → T3) (env : List (Name × T3)) (n : Name) : List (Name × T3) :=
  let ins := (c.fanin n).map (envVal3 env pat)
  let b := match c.ty? n with
    | some t => (match gateFn3 t ins with | some b => b | none => pat n)
    | none => pat n
  (n, b) :: env

def eval3 (c : Circuit) (order : List Name) (pat : Name → T3) : Name → T3 :=
  envVal3 (order.foldl (evalStep3 c pat) []) pat

/-- a Boolean assignment is a completion of a ternary pattern -/
def Completes (b : Val) (pat : Name → T3) : Prop := ∀ n, pat n = T3.x ∨ pat n = T3.ofBool (b n)

end CG
