/-
  CG.Tx3 — acyclic_unroll (with its feedback-arc-set heuristic), sequential_unroll and insert_registers of tx.py,
  as coded.
-/
import CG.Tx2
import CG.Lint
namespace CG
namespace Tx
open Query

/-- working graph of `approx_min_fas`: remaining nodes (graph order) over the fixed edge list -/
def outDeg (edges : List (Name × Name)) (rem : List Name) (n : Name) : Nat :=
  (edges.filter (fun e => e.1 == n && rem.contains e.2)).length
def inDeg (edges : List (Name × Name)) (rem : List Name) (n : Name) : Nat :=
  (edges.filter (fun e => e.2 == n && rem.contains e.1)).length

/-- peel sinks (resp. sources) until none is left; returns (peeled in order, remaining) -/
def peel (deg : List Name → Name → Nat) : Nat → List Name → List Name → List Name × List Name
  | 0, rem, acc => (acc, rem)
  | fuel + 1, rem, acc =>
    let zs := rem.filter (fun n => deg rem n == 0)
    if zs.isEmpty then (acc, rem) else peel deg fuel (rem.filter (fun n => !zs.contains n)) (acc ++ zs)

/-- first element maximising `key` (Python's `max` keeps the first maximum) -/
def firstMax (key : Name → Int) : List Name → Option Name
  | [] => none
  | x :: xs => some (xs.foldl (fun best y => if key y > key best then y else best) x)

/-- the outer `while g_copy.nodes` loop: returns (s1, s2) -/
def fasLoop (edges : List (Name × Name)) : Nat → List Name → List Name → List Name → List Name × List Name
  | 0, _, s1, s2 => (s1, s2)
  | fuel + 1, rem, s1, s2 =>
    if rem.isEmpty then (s1, s2) else
    let (sinks, rem1) := peel (outDeg edges) (rem.length + 1) rem []
    let (sources, rem2) := peel (inDeg edges) (rem1.length + 1) rem1 []
    let s2' := s2 ++ sinks
    let s1' := s1 ++ sources
    match firstMax (fun x => (outDeg edges rem2 x : Int) - (inDeg edges rem2 x : Int)) rem2 with
    | none => fasLoop edges fuel rem2 s1' s2'
    | some n => fasLoop edges fuel (rem2.filter (· != n)) (s1' ++ [n]) s2'

/-- `approx_min_fas(g)`: the feedback edges -/
def approxMinFas (c : Circuit) : List (Name × Name) :=
  let (s1, s2) := fasLoop c.edges (c.nodes.length + 1) c.nodeNames [] []
  let ordering := s1 ++ s2.reverse
  let back := c.edges.filter (fun e => ordering.idxOf e.1 > ordering.idxOf e.2)
  back.filter (fun e => (descendants c e.2).contains e.1)

/-- `tx.acyclic_unroll(c)`; `ordF` enumerates the (plain) feedback set -/
def acyclicUnroll (c : Circuit) (ord ordF : Ord) : E Circuit :=
  if !c.bbs.isEmpty then .error .valueError else
  if c.nodes.any (fun p => p.2.ty.isNone) then .error .keyError else
  let fb := approxMinFas c
  -- the self-check inside approx_min_fas
  let cutG : Circuit := { c with edges := c.edges.filter (fun e => !fb.contains e) }
  if isCyclic cutG then .error .valueError else
  let feedback := ordF (dedup (fb.map (·.1)))
  let sp := ord c.startpointsAll
  sp.foldlM (fun a n => addC a { n := n, ty := "input" }) ({ name := "acyc_" ++ c.name } : Circuit) >>= fun acyc =>
  feedback.foldlM (fun cc f =>
      let fo := ord (dedup (c.fanout f))
      addC (cc.disconnect [f] fo) { n := "aux_in_" ++ f, ty := "buf", fanout := fo }) c >>= fun cCut0 =>
  let cCut := c.outputs.foldl (fun a o => a.setOutRaw o false) cCut0
  (List.range (feedback.length + 1)).foldlM (fun a i =>
      let ci := "c" ++ toString i
      liftO (a.addSubcircuit cCut ci (sp.map (fun n => (n, [n])))) >>= fun a1 =>
      if i > 0 then
        feedback.foldlM (fun a2 f => liftO (a2.connect ["c" ++ toString (i - 1) ++ "_" ++ f] [ci ++ "_aux_in_" ++ f])) a1
      else
        feedback.foldlM (fun a2 f => liftO (a2.setType [ci ++ "_aux_in_" ++ f] "input")) a1) acyc >>= fun acyc =>
  let last := "c" ++ toString feedback.length
  (ord c.outputs).foldlM (fun a o =>
      if sp.contains o then liftO (a.setOutput [o] true)
      else addC a { n := o, ty := "buf", fanin := [last ++ "_" ++ o], output := true }) acyc >>= fun acyc =>
  if lint acyc {} ord != .ok then .error .valueError else
  if isCyclic acyc then .error .valueError else pure acyc

/-- `tx.sequential_unroll(...)`; all blackboxes are assumed to be of one type (the code picks an arbitrary one) -/
def sequentialUnroll (c : Circuit) (n : Nat) (dPort qPort : Name) (ignore : List Name) (addFlopOutputs : Bool)
    (initStr : Option String) (initDict : List (Name × String)) (removeUnloaded : Bool) (pfx : String) (ord : Ord) :
    E UState :=
  stripBlackboxes c ignore ord >>= fun cs0 =>
  match c.bbs with
  | [] => .error .keyError
  | (_, bb) :: _ =>
    if !bb.ins.contains dPort then .error .valueError else
    let insts := c.bbs.map (·.1)
    -- ignored pins were deleted by strip_blackboxes, not exposed: a node that happens to be called like one of them is
    -- not a pin and stays (fix K39)
    let cs1 := cs0.remove ((bb.ins.filter (fun p => p != dPort && !ignore.contains p)).flatMap (fun p => insts.map (fun b => b ++ "_" ++ p)))
    if !bb.outs.contains qPort then .error .valueError else
    let cs2 := cs1.remove ((bb.outs.filter (fun p => p != qPort && !ignore.contains p)).flatMap (fun p => insts.map (fun b => b ++ "_" ++ p)))
    (if cs2.nodes.any (fun p => p.2.ty.isNone) then .error .keyError else pure ()) >>= fun _ =>
    let stateIns := insts.map (fun b => b ++ "_" ++ qPort)
    let cs3 := if removeUnloaded then
        -- an unloaded input that is itself an output stays (fix K34)
        cs2.remove (cs2.inputs.filter (fun i => (cs2.fanout i).isEmpty && !stateIns.contains i && !cs2.isOut i))
      else cs2
    let stateIO := insts.map (fun b => (b ++ "_" ++ dPort, b ++ "_" ++ qPort))
    unroll cs3 n stateIO pfx ord >>= fun r =>
    insts.foldlM (fun uc b =>
        match r.2.lookup (b ++ "_" ++ dPort) with
        | none => .error .keyError
        | some l => liftO (uc.setOutput l addFlopOutputs)) r.1 >>= fun uc1 =>
    (match initStr with
     | some v => insts.foldlM (fun uc b =>
         match r.2.lookup (b ++ "_" ++ qPort) with
         | some (x :: _) => liftO (uc.setType [x] v)
         | _ => .error .keyError) uc1
     | none => initDict.foldlM (fun uc kv =>
         match r.2.lookup (kv.1 ++ "_" ++ qPort) with
         | some (x :: _) => liftO (uc.setType [x] kv.2)
         | some [] => .error .indexError
         | none => .error .keyError) uc1) >>= fun uc2 =>
    pure (uc2, r.2)

/-- Python's `round(a / b)` on small non-negative integers (half to even) -/
def roundDiv (a b : Nat) : Nat :=
  let q := a / b
  let r := a % b
  if 2 * r < b then q else if 2 * r > b then q + 1 else if q % 2 == 0 then q else q + 1

/-- `tx.insert_registers(c, num_stages)` with the default flop (`ff`: clk, d -> q) and default names -/
def insertRegisters (c : Circuit) (numStages : Nat) (ord : Ord) (fuel : Nat) : E Circuit :=
  c.nodeNames.mapM (fun n => match depth c false [n] true ord fuel with
    | .ok d => .ok (n, d) | .error e => .error e) >>= fun depths =>
  let maxDepth := depths.foldl (fun m p => max m p.2) 0
  let depthInc := roundDiv maxDepth (numStages + 1)
  (if c.has "clk" then pure c else addC c { n := "clk", ty := "input" }) >>= fun c1 =>
  if depthInc == 0 then .error .valueError else    -- range() arg 3 must not be zero
  let levels := (List.range maxDepth).filter (fun i => i ≥ depthInc && (i - depthInc) % depthInc == 0)
  let ff : BBox := { name := "ff", ins := ["clk", "d"], outs := ["q"] }
  levels.foldlM (fun cr i =>
    ((depths.filter (fun p => p.2 == i)).map (·.1)).foldlM (fun cr n =>
      let fo := ord (dedup (cr.fanout n))
      addE (cr.disconnect [n] fo) { n := n ++ "_cg_insert_reg_q_" ++ toString i, ty := "buf", uid := true, fanout := fo } >>= fun r =>
      liftO (r.1.addBlackbox ff ("ff_" ++ n) [("d", [n]), ("q", [r.2]), ("clk", ["clk"])] ord)) cr) c1

end Tx
end CG
