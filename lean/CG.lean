import CG.Basic
import CG.Tables
import CG.Generated
import CG.Sem
import CG.Ops
import CG.Order
import CG.Lint
import CG.Api
