/-
  Driver — JSON line protocol between the Python harness and the Lean model.
  One request per line on stdin, one response per line on stdout.
-/
import Lean.Data.Json
import CG
open Lean CG

namespace Drv

def jstr (s : String) : Json := Json.str s
def jnat (n : Nat) : Json := Json.num (JsonNumber.fromNat n)
def jarr {α} (f : α → Json) (l : List α) : Json := Json.arr (l.map f).toArray

def circuitToJson (c : Circuit) : Json :=
  Json.mkObj [
    ("name", jstr c.name),
    ("nodes", jarr (fun (p : String × Attr) => Json.arr #[jstr p.1,
        (match p.2.ty with | some t => jstr t | none => Json.null),
        (match p.2.out with | some b => Json.bool b | none => Json.null)]) c.nodes),
    ("edges", jarr (fun (e : String × String) => Json.arr #[jstr e.1, jstr e.2]) c.edges),
    ("bbs", jarr (fun (p : String × BBox) => Json.arr #[jstr p.1, jstr p.2.name,
        jarr jstr p.2.ins, jarr jstr p.2.outs]) c.bbs)]

def getStrList (j : Json) : Except String (List String) := do
  let a ← j.getArr?
  a.toList.mapM (·.getStr?)

def optStr (j : Json) : Except String (Option String) :=
  if j.isNull then pure none else do pure (some (← j.getStr?))

def optBool (j : Json) : Except String (Option Bool) :=
  if j.isNull then pure none else do pure (some (← j.getBool?))

def bboxOfJson (a : Array Json) (off : Nat) : Except String BBox := do
  pure { name := ← a[off]!.getStr?, ins := ← getStrList a[off+1]!, outs := ← getStrList a[off+2]! }

def circuitOfJson (j : Json) : Except String Circuit := do
  let name ← (← j.getObjVal? "name").getStr?
  let nodes ← (← (← j.getObjVal? "nodes").getArr?).toList.mapM (fun x => do
    let a ← x.getArr?
    pure ((← a[0]!.getStr?), ({ ty := ← optStr a[1]!, out := ← optBool a[2]! } : Attr)))
  let edges ← (← (← j.getObjVal? "edges").getArr?).toList.mapM (fun x => do
    let a ← x.getArr?
    pure ((← a[0]!.getStr?), (← a[1]!.getStr?)))
  let bbs ← (← (← j.getObjVal? "bbs").getArr?).toList.mapM (fun x => do
    let a ← x.getArr?
    pure ((← a[0]!.getStr?), (← bboxOfJson a 1)))
  pure { name := name, nodes := nodes, edges := edges, bbs := bbs }

def getOrd (j : Json) : Ord :=
  match j.getObjVal? "seed" with
  | .ok v => (match v.getNat? with | .ok n => ordBy n | .error _ => id)
  | .error _ => id

def getBoolD (j : Json) (k : String) (d : Bool) : Bool :=
  match j.getObjVal? k with
  | .ok v => (match v.getBool? with | .ok b => b | .error _ => d)
  | .error _ => d

def getStrListD (j : Json) (k : String) : List String :=
  match j.getObjVal? k with
  | .ok v => (match getStrList v with | .ok l => l | .error _ => [])
  | .error _ => []

def connsOfJson (j : Json) : Except String (List (String × List String)) := do
  let a ← j.getArr?
  a.toList.mapM (fun x => do
    let p ← x.getArr?
    pure ((← p[0]!.getStr?), (← getStrList p[1]!)))

/-- one construction-API operation -/
def applyOp (ord : Ord) (c : Circuit) (j : Json) : Except String (Circuit × Outcome × Json) := do
  let op ← (← j.getObjVal? "op").getStr?
  let viaStep : Op → Except String (Circuit × Outcome × Json) := fun o =>
    let r := step ord c o
    pure (r.1, r.2, Json.null)
  match op with
  | "add" =>
    let a : Circuit.AddArgs := {
      n := ← (← j.getObjVal? "n").getStr?, ty := ← (← j.getObjVal? "type").getStr?,
      fanin := getStrListD j "fanin", fanout := getStrListD j "fanout",
      output := getBoolD j "output" false, addConnected := getBoolD j "add_connected_nodes" false,
      allowRedef := getBoolD j "allow_redefinition" false, uid := getBoolD j "uid" false }
    let (c', o, n) := c.add a
    let (c'', o') := step ord c (.add a)
    if c'' != c' || o' != o then throw "step/add mismatch" else
    pure (c', o, jstr n)
  | "connect" => viaStep (.connect (getStrListD j "us") (getStrListD j "vs"))
  | "disconnect" => viaStep (.disconnect (getStrListD j "us") (getStrListD j "vs"))
  | "remove" => viaStep (.remove (getStrListD j "ns"))
  | "set_output" => viaStep (.setOutput (getStrListD j "ns") (getBoolD j "output" true))
  | "add_blackbox" =>
    let bbj ← (← j.getObjVal? "bb").getArr?
    let bb ← bboxOfJson bbj 0
    viaStep (.addBlackbox bb (← (← j.getObjVal? "name").getStr?) (← connsOfJson (← j.getObjVal? "connections")))
  | "add_subcircuit" =>
    -- "self": the circuit is added into itself (the child is the state at the time of the call)
    let sc ← if getBoolD j "self" false then pure c else circuitOfJson (← j.getObjVal? "sc")
    if !getBoolD j "strip_io" true then
      let (c', o) := c.addSubcircuit sc (← (← j.getObjVal? "name").getStr?)
        (← connsOfJson (← j.getObjVal? "connections")) false
      pure (c', o, Json.null)
    else
    viaStep (.addSubcircuit sc (← (← j.getObjVal? "name").getStr?) (← connsOfJson (← j.getObjVal? "connections")))
  | "fill_blackbox" =>
    let sc ← circuitOfJson (← j.getObjVal? "sc")
    viaStep (.fillBlackbox (← (← j.getObjVal? "name").getStr?) sc)
  | "set_type" =>
    let (c', o) := c.setType (getStrListD j "ns") (← (← j.getObjVal? "type").getStr?)
    pure (c', o, Json.null)
  | "relabel" =>
    let m ← (← (← j.getObjVal? "mapping").getArr?).toList.mapM (fun x => do
      let p ← x.getArr?
      pure ((← p[0]!.getStr?), (← p[1]!.getStr?)))
    pure (c.relabel m, .ok, Json.null)
  | "remove_unloaded" =>
    match c.removeUnloaded (getBoolD j "inputs" false) ord with
    | some (c', removed) => pure (c', .ok, jarr jstr removed)
    | none => pure (c, .fuel, Json.null)
  | _ => throw s!"unknown construction op {op}"

partial def varToJson : Var → Json
  | .node s => jstr s
  | .xorAux a b => Json.arr #[jstr "xor", varToJson a, varToJson b]
  | .xorInv s => Json.arr #[jstr "xor_inv", jstr s]

def clauseToJson (cl : Clause) : Json :=
  jarr (fun (l : Lit) => Json.arr #[Json.bool l.pos, varToJson l.v]) cl

def getOrdE (j : Json) : List (String × String) → List (String × String) :=
  match j.getObjVal? "seed" with
  | .ok v => (match v.getNat? with | .ok n => ordEdgesBy n | .error _ => id)
  | .error _ => id

def optCircuit (j : Json) (k : String) : Except String (Option Circuit) :=
  match j.getObjVal? k with
  | .ok v => if v.isNull then pure none else do pure (some (← circuitOfJson v))
  | .error _ => pure none

def optStrList (j : Json) (k : String) : Except String (Option (List String)) :=
  match j.getObjVal? k with
  | .ok v => if v.isNull then pure none else do pure (some (← getStrList v))
  | .error _ => pure none

def pairsOfJson (j : Json) : Except String (List (String × String)) := do
  (← j.getArr?).toList.mapM (fun x => do
    let p ← x.getArr?
    pure ((← p[0]!.getStr?), (← p[1]!.getStr?)))

def jpairs (l : List (String × String)) : Json :=
  jarr (fun (p : String × String) => Json.arr #[jstr p.1, jstr p.2]) l

def respond (o : Outcome) (extra : List (String × Json)) : Json :=
  Json.mkObj (("outcome", jstr o.toString) :: extra)

def valOfJson (j : Json) : Except String Val := do
  let a ← j.getArr?
  let l ← a.toList.mapM (·.getStr?)
  pure (fun n => l.contains n)

def assumptionsOfJson (j : Json) : Except String (List (String × Bool)) := do
  match j.getObjVal? "assumptions" with
  | .error _ => pure []
  | .ok a =>
    let arr ← a.getArr?
    arr.toList.mapM (fun p => do
      let q ← p.getArr?
      match q.toList with
      | [n, b] => pure ((← n.getStr?), (← b.getBool?))
      | _ => throw "assumption")

def handle (j : Json) : Except String Json := do
  let op ← (← j.getObjVal? "op").getStr?
  let ord := getOrd j
  match op with
  | "ping" => pure (respond .ok [])
  | "apply" =>
    -- {"op":"apply","c":circuit,"ops":[...], "trace":bool}
    let c0 ← circuitOfJson (← j.getObjVal? "c")
    let ops ← (← j.getObjVal? "ops").getArr?
    let trace := getBoolD j "trace" true
    let mut c := c0
    let mut out : Array Json := #[]
    for o in ops do
      let (c', oc, r) ← applyOp ord c o
      c := c'
      out := out.push (Json.mkObj ([("outcome", jstr oc.toString), ("ret", r)] ++
        (if trace then [("c", circuitToJson c')] else [])))
    pure (respond .ok [("steps", Json.arr out), ("c", circuitToJson c)])
  | "lint" =>
    let c ← circuitOfJson (← j.getObjVal? "c")
    let fl : LintFlags := { failFast := getBoolD j "fail_fast" true, unloaded := getBoolD j "unloaded" false,
                            undriven := getBoolD j "undriven" true,
                            singleInputGates := getBoolD j "single_input_gates" false }
    pure (respond (lint c fl ord) [])
  | "eval" =>
    -- {"op":"eval","c":..,"order":[..],"true":[names free-true]} -> list of names evaluating to true
    let c ← circuitOfJson (← j.getObjVal? "c")
    let order := getStrListD j "order"
    let free ← valOfJson (← j.getObjVal? "true")
    let v := eval c order free
    pure (respond .ok [("true", jarr jstr (c.nodeNames.filter v)),
                       ("consistent", Json.bool (consistentB c v))])
  | "cnf" =>
    let c ← circuitOfJson (← j.getObjVal? "c")
    match cnf c ord, idCalls c ord with
    | .ok f, .ok calls =>
      pure (respond .ok [("clauses", jarr clauseToJson f), ("pool", jarr varToJson (dedupVars calls))])
    | .error e, _ => pure (respond e [])
    | _, .error e => pure (respond e [])
  | "limit_fanin" =>
    let c ← circuitOfJson (← j.getObjVal? "c")
    match Tx.limitFanin c (← (← j.getObjVal? "k").getNat?) ord with
    | .ok r => pure (respond .ok [("c", circuitToJson r)])
    | .error e => pure (respond e [])
  | "limit_fanout" =>
    let c ← circuitOfJson (← j.getObjVal? "c")
    match Tx.limitFanout c (← (← j.getObjVal? "k").getNat?) ord with
    | .ok r => pure (respond .ok [("c", circuitToJson r)])
    | .error e => pure (respond e [])
  | "miter" =>
    let c0 ← circuitOfJson (← j.getObjVal? "c0")
    match Tx.miter c0 (← optCircuit j "c1") (← optStrList j "startpoints") (← optStrList j "endpoints") ord with
    | .ok r => pure (respond .ok [("c", circuitToJson r)])
    | .error e => pure (respond e [])
  | "ternary" =>
    let c ← circuitOfJson (← j.getObjVal? "c")
    match Tx.ternary c ord with
    | .ok (r, m) => pure (respond .ok [("c", circuitToJson r), ("mapping", jpairs m)])
    | .error e => pure (respond e [])
  | "unroll" =>
    let c ← circuitOfJson (← j.getObjVal? "c")
    match Tx.unroll c (← (← j.getObjVal? "n").getNat?) (← pairsOfJson (← j.getObjVal? "state_io"))
        (← (← j.getObjVal? "prefix").getStr?) ord with
    | .ok (r, m) => pure (respond .ok [("c", circuitToJson r),
        ("io_map", jarr (fun (p : String × List String) => Json.arr #[jstr p.1, jarr jstr p.2]) m)])
    | .error e => pure (respond e [])
  | "subcircuit" =>
    let c ← circuitOfJson (← j.getObjVal? "c")
    match Tx.subcircuit c (getStrListD j "nodes") (getBoolD j "modify_io" false) (getOrdE j) with
    | .ok r => pure (respond .ok [("c", circuitToJson r)])
    | .error e => pure (respond e [])
  | "strip_blackboxes" =>
    let c ← circuitOfJson (← j.getObjVal? "c")
    match Tx.stripBlackboxes c (getStrListD j "ignore_pins") ord with
    | .ok r => pure (respond .ok [("c", circuitToJson r)])
    | .error e => pure (respond e [])
  | "strip_io" => pure (respond .ok [("c", circuitToJson (Tx.stripIO (← circuitOfJson (← j.getObjVal? "c"))))])
  | "strip_inputs" => pure (respond .ok [("c", circuitToJson (Tx.stripInputs (← circuitOfJson (← j.getObjVal? "c"))))])
  | "strip_outputs" => pure (respond .ok [("c", circuitToJson (Tx.stripOutputs (← circuitOfJson (← j.getObjVal? "c"))))])
  | "logic" =>
    let fn ← (← j.getObjVal? "fn").getStr?
    let w := match j.getObjVal? "w" with | .ok v => (match v.getNat? with | .ok n => n | .error _ => 0) | .error _ => 0
    let r : E Circuit := match fn with
      | "half_adder" => Logic.halfAdder
      | "full_adder" => Logic.fullAdder
      | "adder" => Logic.adder w (getBoolD j "carry_in" false) (getBoolD j "carry_out" false)
      | "mux" => Logic.mux w
      | "popcount" => Logic.popcount w
      | _ => .error (.other "unknown generator")
    match r with
    | .ok c => pure (respond .ok [("c", circuitToJson c)])
    | .error e => pure (respond e [])
  | "clog2" =>
    match Logic.clog2 (← (← j.getObjVal? "n").getNat?) with
    | .ok r => pure (respond .ok [("r", jnat r)])
    | .error e => pure (respond e [])
  | "int_to_bin" =>
    pure (respond .ok [("r", jarr Json.bool (Logic.intToBin (← (← j.getObjVal? "i").getNat?) (← (← j.getObjVal? "w").getNat?)
      (getBoolD j "lend" false)))])
  | "bin_to_int" =>
    let b ← (← (← j.getObjVal? "b").getArr?).toList.mapM (·.getBool?)
    pure (respond .ok [("r", jstr (toString (Logic.binToInt b (getBoolD j "lend" false))))])
  | "query" =>
    let c ← circuitOfJson (← j.getObjVal? "c")
    let q ← (← j.getObjVal? "q").getStr?
    let ns := getStrListD j "ns"
    -- `"ns": null` (or no key) is Python's None; `[]` is an empty collection
    let nsOpt : Option (List String) := match j.getObjVal? "ns" with
      | .ok (Json.arr _) => some ns
      | _ => none
    let listR : Except Outcome (List String) → Json := fun r => match r with
      | .ok l => respond .ok [("r", jarr jstr l)]
      | .error e => respond e []
    match q with
    | "fanin" => pure (listR (Query.faninOf c ns))
    | "fanout" => pure (listR (Query.fanoutOf c ns))
    | "transitive_fanin" => pure (listR (Query.transitiveFanin c ns))
    | "transitive_fanout" => pure (listR (Query.transitiveFanout c ns))
    | "startpoints" => pure (listR (Query.startpointsOpt c nsOpt))
    | "endpoints" => pure (listR (Query.endpointsOpt c nsOpt))
    | "is_cyclic" => pure (respond .ok [("r", Json.bool (Query.isCyclic c))])
    | "topo_sort" => pure (match Query.topoSort c with
        | some l => respond .ok [("r", jarr jstr l)]
        | none => respond (.other "NetworkXUnfeasible") [])
    | "fanout_depth" | "fanin_depth" =>
      pure (match Query.depth c (q == "fanout_depth") ns (getBoolD j "maximum" true) ord 2000000 with
        | .ok d => respond .ok [("r", jnat d)]
        | .error e => respond e [])
    | "levelize" => pure (match Query.levelize c with
        | .ok l => respond .ok [("r", jarr (fun (p : String × Nat) => Json.arr #[jstr p.1, jnat p.2]) l)]
        | .error e => respond e [])
    | "reconvergent_fanout_nodes" => pure (respond .ok [("r", jarr jstr (Query.reconvergentFanoutNodes c ord))])
    | "kcuts" =>
      pure (match Query.kcuts c (← (← j.getObjVal? "k").getNat?) ord (c.nodes.length + 2) (← (← j.getObjVal? "n").getStr?) with
        | some cuts => respond .ok [("r", jarr (jarr jstr) cuts)]
        | none => respond .fuel [])
    | _ => throw s!"unknown query {q}"
  | "dimacs" =>
    let c ← circuitOfJson (← j.getObjVal? "c")
    let as ← (← (← j.getObjVal? "assumptions").getArr?).toList.mapM (fun x => do
      let p ← x.getArr?
      pure ((← p[0]!.getStr?), (← p[1]!.getBool?)))
    let sp := match j.getObjVal? "startpoints" with
      | .ok v => (match getStrList v with | .ok l => l | .error _ => ord c.startpointsAll)
      | .error _ => ord c.startpointsAll
    match dimacs c ord as sp with
    | .ok t => pure (respond .ok [("text", jstr t)])
    | .error e => pure (respond e [])
  | "solve" =>
    -- {"op":"solve","c":..,"assumptions":[[name,bool]..]} with the DPLL instance of the solver contract
    let c ← circuitOfJson (← j.getObjVal? "c")
    let as ← assumptionsOfJson j
    match solve Dpll.dpll c ord as with
    | .ok none => pure (respond .ok [("sat", Json.bool false)])
    | .ok (some v) => pure (respond .ok [("sat", Json.bool true), ("true", jarr jstr (c.nodeNames.filter v)),
                                          ("consistent", Json.bool (consistentB c v))])
    | .error e => pure (respond e [])
  | "model_count" =>
    let c ← circuitOfJson (← j.getObjVal? "c")
    let as ← assumptionsOfJson j
    match modelCount Dpll.dpll c ord as with
    | .ok n => pure (respond .ok [("r", jnat n)])
    | .error e => pure (respond e [])
  | "sensitize" =>
    let c ← circuitOfJson (← j.getObjVal? "c")
    match Props.sensitize Dpll.dpll c (← (← j.getObjVal? "n").getStr?) [] ord (getOrdE j) with
    | .ok none => pure (respond .ok [("sat", Json.bool false)])
    | .ok (some r) => pure (respond .ok [("sat", Json.bool true),
        ("r", jarr (fun (p : String × Bool) => Json.arr #[jstr p.1, Json.bool p.2]) r)])
    | .error e => pure (respond e [])
  | "sensitivity" =>
    let c ← circuitOfJson (← j.getObjVal? "c")
    match Props.sensitivity Dpll.dpll c (← (← j.getObjVal? "n").getStr?) ord with
    | .ok n => pure (respond .ok [("r", jnat n)])
    | .error e => pure (respond e [])
  | "influence" =>
    let c ← circuitOfJson (← j.getObjVal? "c")
    match Props.influence Dpll.dpll c (← (← j.getObjVal? "n").getStr?) ord (getOrdE j) with
    | .ok r => pure (respond .ok [("r", jarr (fun (p : String × Nat × Nat) => Json.arr #[jstr p.1, jnat p.2.1, jnat p.2.2]) r)])
    | .error e => pure (respond e [])
  | "avg_sensitivity" =>
    let c ← circuitOfJson (← j.getObjVal? "c")
    match Props.avgSensitivity Dpll.dpll c (← (← j.getObjVal? "n").getStr?) ord (getOrdE j) with
    | .ok r => pure (respond .ok [("tot", jnat r.1), ("k", jnat r.2)])
    | .error e => pure (respond e [])
  | "sensitization_transform" =>
    let c ← circuitOfJson (← j.getObjVal? "c")
    match Tx.sensitizationTransform c (← (← j.getObjVal? "n").getStr?) (getStrListD j "endpoints") ord (getOrdE j) with
    | .ok r => pure (respond .ok [("c", circuitToJson r)])
    | .error e => pure (respond e [])
  | "sensitivity_transform" =>
    let c ← circuitOfJson (← j.getObjVal? "c")
    match Tx.sensitivityTransform c (← (← j.getObjVal? "n").getStr?) ord with
    | .ok r => pure (respond .ok [("c", circuitToJson r)])
    | .error e => pure (respond e [])
  | "acyclic_unroll" =>
    let c ← circuitOfJson (← j.getObjVal? "c")
    match Tx.acyclicUnroll c ord ord with
    | .ok r => pure (respond .ok [("c", circuitToJson r), ("feedback", jarr jstr (dedup ((Tx.approxMinFas c).map (·.1))))])
    | .error e => pure (respond e [])
  | "sequential_unroll" =>
    let c ← circuitOfJson (← j.getObjVal? "c")
    let iv := j.getObjValD "initial_values"
    let initStr : Option String := match iv.getStr? with | .ok s => some s | .error _ => none
    let initDict : List (String × String) := match iv.getArr? with
      | .ok a => a.toList.filterMap (fun x => match x.getArr? with
          | .ok p => (match p[0]!.getStr?, p[1]!.getStr? with | .ok a, .ok b => some (a, b) | _, _ => none)
          | .error _ => none)
      | .error _ => []
    match Tx.sequentialUnroll c (← (← j.getObjVal? "n").getNat?) (← (← j.getObjVal? "d").getStr?)
        (← (← j.getObjVal? "q").getStr?) (getStrListD j "ignore_pins") (getBoolD j "add_flop_outputs" false)
        initStr initDict (getBoolD j "remove_unloaded" true) "cg_unroll" ord with
    | .ok (r, m) => pure (respond .ok [("c", circuitToJson r),
        ("io_map", jarr (fun (p : String × List String) => Json.arr #[jstr p.1, jarr jstr p.2]) m)])
    | .error e => pure (respond e [])
  | "insert_registers" =>
    let c ← circuitOfJson (← j.getObjVal? "c")
    match Tx.insertRegisters c (← (← j.getObjVal? "num_stages").getNat?) ord 2000000 with
    | .ok r => pure (respond .ok [("c", circuitToJson r)])
    | .error e => pure (respond e [])
  | "re_findall" =>
    match Regex.findall (← (← j.getObjVal? "pattern").getStr?) (← (← j.getObjVal? "text").getStr?) (getBoolD j "dotall" false) with
    | some r => pure (respond .ok [("r", jarr (jarr jstr) r)])
    | none => pure (respond (.other "regex-parse") [])
  | "re_search" =>
    match Regex.search (← (← j.getObjVal? "pattern").getStr?) (← (← j.getObjVal? "text").getStr?) (getBoolD j "dotall" false) with
    | some (some mt) => pure (respond .ok [("span", Json.arr #[jnat mt.start, jnat mt.stop]),
        ("groups", jarr (fun (g : Option String) => match g with | some x => jstr x | none => Json.null) mt.groups)])
    | some none => pure (respond .ok [("span", Json.null)])
    | none => pure (respond (.other "regex-parse") [])
  | "bench_read" =>
    match Bench.read (← (← j.getObjVal? "text").getStr?) (← (← j.getObjVal? "name").getStr?) with
    | .ok c => pure (respond .ok [("c", circuitToJson c)])
    | .error e => pure (respond e [])
  | "bench_write" =>
    match Bench.write (← circuitOfJson (← j.getObjVal? "c")) ord with
    | .ok t => pure (respond .ok [("text", jstr t)])
    | .error e => pure (respond e [])
  | "verilog_read" =>
    let bbs ← (← (← j.getObjVal? "bbs").getArr?).toList.mapM (fun x => do bboxOfJson (← x.getArr?) 0)
    match Verilog.read (← (← j.getObjVal? "text").getStr?) (← (← j.getObjVal? "name").getStr?) bbs ord with
    | .ok c => pure (respond .ok [("c", circuitToJson c)])
    | .error e => pure (respond e [])
  | "fast_verilog_read" =>
    let bbs ← (← (← j.getObjVal? "bbs").getArr?).toList.mapM (fun x => do bboxOfJson (← x.getArr?) 0)
    match FastVerilog.parse (← (← j.getObjVal? "text").getStr?) bbs ord ord with
    | .ok c => pure (respond .ok [("c", circuitToJson c)])
    | .error e => pure (respond e [])
  | "supergates_check" =>
    let c2 ← circuitOfJson (← j.getObjVal? "c")
    let sgs ← (← (← j.getObjVal? "sgs").getArr?).toList.mapM circuitOfJson
    pure (respond .ok [("ok", Json.bool (Supergates.supergatesOK c2 sgs)), ("why", jstr (Supergates.why c2 sgs))])
  | "supergates_algo" =>
    match Supergates.run (← circuitOfJson (← j.getObjVal? "c")) ord with
    | .ok r => pure (respond .ok [("heads_distinct", Json.bool r.headsDistinct), ("cyclic", Json.bool r.cyclic),
        ("sgs", jarr (fun p => Json.mkObj [("head", jstr p.1.head), ("c", circuitToJson p.2)]) r.sgs)])
    | .error e => pure (respond e [])
  | "supergates_super" =>
    match Supergates.runSuper (← circuitOfJson (← j.getObjVal? "c")) ord with
    | .ok r => pure (respond .ok [("super", circuitToJson r.1),
        ("map", jarr (fun p => Json.mkObj [("name", jstr p.1), ("c", circuitToJson p.2)]) r.2)])
    | .error e => pure (respond e [])
  | "verilog_write" =>
    match Verilog.write (← circuitOfJson (← j.getObjVal? "c")) (getBoolD j "behavioral" false) ord with
    | .ok t => pure (respond .ok [("text", jstr t)])
    | .error e => pure (respond e [])
  | "ord" =>
    pure (respond .ok [("r", jarr jstr (ord (getStrListD j "l")))])
  | _ => throw s!"unknown op {op}"

end Drv

partial def loop (h : IO.FS.Stream) (out : IO.FS.Stream) : IO Unit := do
  let line ← h.getLine
  if line.isEmpty then return ()
  let resp := match Json.parse line with
    | .error e => Json.mkObj [("outcome", Json.str "PROTOCOL"), ("error", Json.str e)]
    | .ok j => match Drv.handle j with
      | .ok r => r
      | .error e => Json.mkObj [("outcome", Json.str "PROTOCOL"), ("error", Json.str e)]
  out.putStrLn resp.compress
  out.flush
  loop h out

def main : IO Unit := do
  loop (← IO.getStdin) (← IO.getStdout)
